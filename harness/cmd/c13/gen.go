package main

// Grammar-based generation biased to the rare productions named by C13, and
// token-level mutation of existing programs.  Programs are only compiled
// (by node and by esbuild), never executed.

import (
	"regexp"
	"strings"

	"github.com/evanw/esbuild/pkg/api"

	. "github.com/evanw/esbuild/verifharness/hlib"
)

var ctxIdents = []string{"let", "async", "yield", "await", "of", "get", "set", "static", "as", "from", "type", "accessor", "target", "meta", "arguments", "eval", "undefined", "constructor", "prototype", "using", "implements", "package", "interface"}
var plainIdents = []string{"a", "b", "c", "x", "y", "f", "g", "o", "$", "_", "x1", "\\u0061b", "\\u{62}c", "l\\u0065t", "aw\\u0061it", "yi\\u0065ld", "\u00e9", "\u4e00x", "a\u200d"}
var numLits = []string{"0", "1", "1_000", "1_0.0_1", "0x1_f", "0b1_0", "0o7_7", "1e1_0", ".5", "5.", "0.0", "1n", "1_0n", "0xFn", "08", "09.5", "010", "0.e1", "1__0", "1_", "0_1", "0x_1", "1_.5", "1._5", "1e_1", "1_e1", "0b12", "0o8", "1.5n", "0e0", "00", "1E5", "0X1F", "0B1", "0O7", "9007199254740993", "1e400", "0.1e-7", "0xg"}
var strLits = []string{"'a'", "\"b\"", "'\\x41'", "'\\u{1F600}'", "'\\0'", "'\\08'", "'\\101'", "'a\\\nb'", "'\u2028'", "\"\\u2028\"", "'\\8'", "`t`", "`a${b}c`", "`${`${a}`}`", "`\\u{1}`", "f`\\unicode`", "`\\unicode`", "'\\u{110000}'", "'use strict'"}
var regexLits = []string{"/x/", "/a+/g", "/[/]/", "/\\//", "/=/", "/=/g", "/[*]/y", "/(?<n>a)\\k<n>/u", "/a/gg", "/a/x", "/\\p{L}/u", "/[\\]/]/", "/a/v", "/(?:)/", "/*/", "//", "/a/dgimsuy"}
var binOps = []string{"+", "-", "*", "/", "%", "**", "<", ">", "<=", ">=", "==", "!=", "===", "!==", "<<", ">>", ">>>", "&", "|", "^", "&&", "||", "??", "in", "instanceof", ","}
var asgOps = []string{"=", "+=", "-=", "*=", "/=", "%=", "**=", "<<=", ">>=", ">>>=", "&=", "|=", "^=", "&&=", "||=", "??="}
var preOps = []string{"+", "-", "!", "~", "typeof ", "void ", "delete ", "++", "--", "await ", "yield ", "yield* ", "new ", "..."}
var separators = []string{";", "\n", ";\n", " ", "\n\n", ";\n", "\n", "\n"}

type rgen struct {
	r     *Rng
	depth int
}

func (g *rgen) pick(xs []string) string { return xs[g.r.Intn(len(xs))] }

func (g *rgen) ident() string {
	if g.r.Chance(45) {
		return g.pick(ctxIdents)
	}
	return g.pick(plainIdents)
}

func (g *rgen) ws() string {
	switch g.r.Intn(14) {
	case 0:
		return "\n"
	case 1:
		return " /* c */ "
	case 2:
		return " // c\n"
	case 3:
		return ""
	case 4:
		return "/**/"
	case 5:
		return "\n/* c\n */"
	}
	return " "
}

func (g *rgen) expr(d int) string {
	if d <= 0 {
		switch g.r.Intn(9) {
		case 0, 1, 2:
			return g.ident()
		case 3:
			return g.pick(numLits)
		case 4:
			return g.pick(strLits)
		case 5:
			return g.pick(regexLits)
		case 6:
			return g.pick([]string{"this", "null", "true", "false", "super.x", "new.target", "import.meta", "[]", "{}", "({})", "[,]", "[,a,,]", "class{}", "function(){}", "()=>{}", "async()=>{}", "async function(){}", "function*(){}"})
		default:
			return g.ident() + "." + g.pick(append(ctxIdents, "class", "if", "in", "new", "typeof", "v\\u0061r", "#p", "1"))
		}
	}
	switch g.r.Intn(34) {
	case 0, 1, 2:
		return g.expr(d-1) + g.ws() + g.pick(binOps) + g.ws() + g.expr(d-1)
	case 3:
		return g.pattern(d-1) + g.ws() + g.pick(asgOps) + g.ws() + g.expr(d-1)
	case 4:
		return g.pick(preOps) + g.expr(d-1)
	case 5:
		return g.expr(d-1) + g.pick([]string{"++", "--", "\n++", "\n--", " ++", "--\n"})
	case 6:
		return "(" + g.expr(d-1) + ")"
	case 7:
		return g.expr(d-1) + g.pick([]string{".", "?.", "\n.", "?.\n", ". "}) + g.pick(append(ctxIdents, "x", "#p", "class", "`t`", "[0]", "(0)", "5"))
	case 8:
		return g.expr(d-1) + g.pick([]string{"(", "?.(", "\n(", " ("}) + g.args(d-1) + ")"
	case 9:
		return g.expr(d-1) + g.pick([]string{"[", "?.[", "\n["}) + g.expr(d-1) + "]"
	case 10:
		return g.expr(d-1) + g.ws() + "?" + g.ws() + g.expr(d-1) + g.ws() + ":" + g.ws() + g.expr(d-1)
	case 11: // arrows and their cover grammar
		return g.pick([]string{"", "async ", "async\n", "async"}) + g.arrowParams(d-1) + g.pick([]string{"=>", " => ", "\n=>", "=>\n"}) + g.pick([]string{g.expr(d - 1), "{" + g.stmts(d-1, 2) + "}", "({})", "{}", "{}\n/x/", "{}\n(0)"})
	case 12:
		return "[" + g.args(d-1) + "]"
	case 13:
		return "({" + g.props(d-1) + "})"
	case 14:
		return g.pick([]string{"function", "function*", "async function", "async function*", "async\nfunction"}) + " " + g.pick([]string{"", g.ident()}) + "(" + g.params(d-1) + "){" + g.stmts(d-1, 2) + "}"
	case 15:
		return "class " + g.pick([]string{"", g.ident(), g.ident() + " extends " + g.expr(d-1), "extends " + g.expr(d-1)}) + "{" + g.classBody(d-1) + "}"
	case 16:
		return "new " + g.expr(d-1) + g.pick([]string{"", "()", "(a)", ".x", "?.x", "`t`"})
	case 17:
		return g.expr(d-1) + g.pick([]string{"`t`", "`a${b}c`", "?.`t`", "\n`t`", "`\\u`"})
	case 18:
		return g.expr(d-1) + " ?? " + g.expr(d-1) + " " + g.pick([]string{"||", "&&", "??", "|"}) + " " + g.expr(d-1)
	case 19:
		return g.pick([]string{"-", "+", "!", "typeof ", "await ", "++", "(-", "delete "}) + g.expr(d-1) + g.pick([]string{"", ")"}) + " ** " + g.expr(d-1)
	case 20:
		return g.expr(d-1) + g.pick([]string{" <!-- ", "<!--", " --> ", "-->", "\n-->", "<! --", "< !--"}) + g.expr(d-1)
	case 21:
		return g.expr(d-1) + g.pick([]string{" / ", "/", " /", "/ ", "\n/", "/\n"}) + g.expr(d-1) + g.pick([]string{"", "/g", " / g", "/ 2"})
	case 22:
		return g.pick([]string{"import(", "import.meta.", "import (", "import\n(", "import.source(", "import.defer("}) + g.expr(d-1) + g.pick([]string{")", "", ", {})", ",)"})
	case 23:
		return g.pick([]string{"#p in ", "#p in\n", "#q in "}) + g.expr(d-1)
	case 24:
		return g.pick([]string{"let", "async", "yield", "await", "of", "static"}) + g.pick([]string{"", "\n", " "}) + g.pick([]string{"[0]", "(0)", ".x", "`t`", " = 1", "++", " in x", " instanceof x", " => 1", "\n=> 1", ": 1", ", 1"})
	case 25:
		return g.expr(d-1) + g.pick([]string{" + +", " - -", " + ++", " - --", "+ +", "- -", "+++", "---", "++ +", "-- -", " +-", " -+", " + -", "- --"}) + g.expr(d-1)
	case 26:
		return g.expr(d-1) + g.pick([]string{" < ", "<", " > ", ">", ">>", ">>>", "<<"}) + g.pick([]string{"!--", "! --", "!-- ", "--", "-- ", "!"}) + g.expr(d-1)
	default:
		return g.expr(d - 1)
	}
}

func (g *rgen) args(d int) string {
	var parts []string
	for k := g.r.Intn(4); k > 0; k-- {
		parts = append(parts, g.pick([]string{"", "", "", "...", ""})+g.expr(d))
	}
	return strings.Join(parts, g.pick([]string{",", ", ", ",\n"})) + g.pick([]string{"", "", "", ",", ",,"})
}

func (g *rgen) pattern(d int) string {
	if d <= 0 {
		return g.pick([]string{g.ident(), g.ident(), g.ident() + "." + g.ident(), g.ident() + "[0]", "(" + g.ident() + ")", "[" + g.ident() + "]", "{" + g.ident() + "}", "({" + g.ident() + "})"})
	}
	switch g.r.Intn(8) {
	case 0:
		var parts []string
		for k := g.r.Intn(4); k > 0; k-- {
			parts = append(parts, g.pick([]string{"", "", "..."})+g.pattern(d-1)+g.pick([]string{"", "", " = " + g.expr(d-1)}))
		}
		return "[" + strings.Join(parts, ",") + g.pick([]string{"", ","}) + "]"
	case 1, 2:
		var parts []string
		for k := g.r.Intn(4); k > 0; k-- {
			switch g.r.Intn(6) {
			case 0:
				parts = append(parts, g.ident())
			case 1:
				parts = append(parts, g.ident()+" = "+g.expr(d-1))
			case 2:
				parts = append(parts, g.propKey(d-1)+": "+g.pattern(d-1))
			case 3:
				parts = append(parts, g.propKey(d-1)+": "+g.pattern(d-1)+" = "+g.expr(d-1))
			case 4:
				parts = append(parts, "..."+g.pattern(d-1))
			default:
				parts = append(parts, g.propKey(d-1)+": ("+g.pattern(d-1)+")")
			}
		}
		s := "{" + strings.Join(parts, ", ") + g.pick([]string{"", ","}) + "}"
		if g.r.Chance(60) {
			return "(" + s
		}
		return s
	case 3:
		return "(" + g.pattern(d-1) + ")"
	default:
		return g.pattern(0)
	}
}

func (g *rgen) propKey(d int) string {
	switch g.r.Intn(8) {
	case 0:
		return g.pick(numLits)
	case 1:
		return g.pick(strLits)
	case 2:
		return "[" + g.expr(d) + "]"
	case 3:
		return g.pick([]string{"class", "if", "new", "in", "typeof", "v\\u0061r", "function", "null", "__proto__", "constructor", "#p"})
	default:
		return g.ident()
	}
}

func (g *rgen) props(d int) string {
	var parts []string
	for k := g.r.Intn(4); k > 0; k-- {
		key := g.propKey(d)
		switch g.r.Intn(12) {
		case 0:
			parts = append(parts, g.ident())
		case 1:
			parts = append(parts, g.ident()+" = "+g.expr(d))
		case 2, 3:
			parts = append(parts, key+": "+g.expr(d))
		case 4:
			parts = append(parts, g.pick([]string{"get ", "set ", "get\n", "static ", "async ", "async *", "*", "async\n", "get *", "async get "})+key+"("+g.params(d)+"){"+g.stmts(d, 1)+"}")
		case 5:
			parts = append(parts, key+"("+g.params(d)+"){"+g.stmts(d, 1)+"}")
		case 6:
			parts = append(parts, "..."+g.expr(d))
		case 7:
			parts = append(parts, g.pick([]string{"get", "set", "async", "static", "await", "yield", "let"})+g.pick([]string{"", ": 1", "(){}", " = 1", " x(){}", " x(v){}", "\nx(){}", " [x](){}", " 'x'(){}", " 1(){}", " get(){}", " *x(){}"}))
		default:
			parts = append(parts, key+": "+g.expr(d))
		}
	}
	return strings.Join(parts, g.pick([]string{",", ", ", ",\n"})) + g.pick([]string{"", "", ","})
}

func (g *rgen) params(d int) string {
	var parts []string
	for k := g.r.Intn(4); k > 0; k-- {
		p := g.pattern(d)
		p = strings.TrimPrefix(p, "(")
		parts = append(parts, g.pick([]string{"", "", "", "..."})+p+g.pick([]string{"", "", " = " + g.expr(d)}))
	}
	return strings.Join(parts, ", ") + g.pick([]string{"", "", ","})
}

func (g *rgen) arrowParams(d int) string {
	switch g.r.Intn(6) {
	case 0:
		return g.ident()
	case 1:
		return "(" + g.ident() + ")"
	case 2:
		return "((" + g.ident() + "))"
	case 3:
		return "(" + g.params(d) + ")\n"
	default:
		return "(" + g.params(d) + ")"
	}
}

func (g *rgen) classBody(d int) string {
	var parts []string
	for k := g.r.Intn(5); k > 0; k-- {
		mods := g.pick([]string{"", "", "static ", "static\n", "get ", "set ", "static get ", "static set ", "async ", "static async ", "*", "async *", "static *", "static async *", "accessor ", "static accessor ", "get\n", "static static ", "async\n", "get get ", "set set "})
		key := g.pick([]string{g.propKey(d), g.propKey(d), "#p", "#q", "constructor", "'constructor'", "static", "get", "set", "async", "prototype", "#constructor", "await", "yield"})
		switch g.r.Intn(8) {
		case 0, 1, 2:
			parts = append(parts, mods+key+"("+g.params(d)+"){"+g.stmts(d, 1)+"}")
		case 3, 4:
			parts = append(parts, mods+key+g.pick([]string{"", " = " + g.expr(d), " = 1", "\n"})+g.pick([]string{";", "\n", ";", ""}))
		case 5:
			parts = append(parts, "static {"+g.stmts(d, 2)+"}")
		case 6:
			parts = append(parts, ";")
		default:
			parts = append(parts, g.pick([]string{"get", "set", "static", "async", "accessor"})+g.pick([]string{";", "\n", " = 1;", "(){}", "\n x(){}", "\n*x(){}", ";x"}))
		}
	}
	return strings.Join(parts, g.pick([]string{"", " ", "\n", ";"}))
}

func (g *rgen) stmt(d int) string {
	if d <= 0 {
		return g.expr(0) + g.pick(separators)
	}
	e := func() string { return g.expr(d - 1) }
	s := func() string { return g.stmt(d - 1) }
	switch g.r.Intn(40) {
	case 0, 1, 2, 3, 4:
		return e() + g.pick(separators)
	case 5:
		return g.pick([]string{"var", "let", "const", "let\n", "var\n", "using", "await using"}) + " " + g.pattern(d-1) + strings.TrimPrefix(g.pick([]string{"", " = " + e(), " = " + e() + ", " + g.ident() + " = " + e()}), "(") + g.pick(separators)
	case 6:
		return "if (" + e() + ") " + s() + g.pick([]string{"", " else " + s(), "\nelse " + s()})
	case 7:
		return "for (" + g.pick([]string{"", "var " + g.ident() + " = " + e(), "let " + g.pattern(d-1), "let", "let = 1", "let[0]", "let [a] = b", e(), "var " + g.ident() + " = (" + e() + " in " + e() + ")", "var " + g.ident() + " = " + e() + " in " + e(), "async of => 1", "const " + g.ident() + " = 1"}) + ";" + g.pick([]string{"", e()}) + ";" + g.pick([]string{"", e()}) + ") " + s()
	case 8:
		return "for (" + g.pick([]string{"var ", "let ", "const ", "", "", "var [", "let {", "let.", "using ", "await using "}) + g.pick([]string{g.ident(), g.pattern(d - 1), g.ident() + " = 1", "async", "let", "(async)", "(let)", "of", "a.b", "a]", "a}", "x"}) + g.pick([]string{" of ", " in ", " of\n", "\nin "}) + e() + ") " + s()
	case 9:
		return "for await (" + g.pick([]string{"var ", "let ", "const ", ""}) + g.pick([]string{g.ident(), "async", "(async)", g.pattern(d - 1)}) + " of " + e() + ") " + s()
	case 10:
		return "while (" + e() + ") " + s()
	case 11:
		return "do " + s() + g.pick([]string{" while (", "\nwhile (", "; while ("}) + e() + ")" + g.pick([]string{";", "", "\n", " " + e()})
	case 12:
		return g.pick([]string{"return", "throw", "break", "continue", "yield", "await"}) + g.pick([]string{"", " ", "\n", " " + e(), "\n" + e(), " " + g.ident()}) + g.pick(separators)
	case 13:
		return g.ident() + ":" + g.pick([]string{" ", "\n", ""}) + g.pick([]string{s(), "function f(){}", "function* g(){}", "async function f(){}", "class A{}", "let x", "for(;;) break " + g.ident() + ";", "{ break " + g.ident() + " }", g.ident() + ": ;"})
	case 14:
		return "{" + g.stmts(d-1, 3) + "}" + g.pick([]string{"", "\n", "/x/g", "\n/x/g", "/1", "(0)", "[0]", "++a", ".x"})
	case 15:
		return "switch (" + e() + ") {" + g.pick([]string{"", "case " + e() + ": " + s(), "default: " + s() + " case 1: " + s(), "case 1: default: case 2:", "default: default:"}) + "}"
	case 16:
		return "try {" + g.stmts(d-1, 1) + "}" + g.pick([]string{" catch {" + s() + "}", " catch (" + g.pattern(d-1) + ") {" + s() + "}", " finally {" + s() + "}", " catch (e) {} finally {}", "", " catch (e) { var e }", " catch ([e]) { var e }", " catch (e) { let e }"})
	case 17:
		return g.pick([]string{"function", "function*", "async function", "async function*", "async\nfunction"}) + " " + g.ident() + "(" + g.params(d-1) + "){" + g.pick([]string{"", "'use strict';", "\"use strict\"\n"}) + g.stmts(d-1, 2) + "}"
	case 18:
		return "class " + g.ident() + g.pick([]string{"", " extends " + e()}) + " {" + g.classBody(d-1) + "}" + g.pick([]string{"", "\n", ";", "/x/", "\n(0)"})
	case 19:
		return "with (" + e() + ") " + s()
	case 20:
		return g.pick([]string{"<!-- c\n", "--> c\n", "\n--> c\n", "/* c */ --> c\n", "/*\n*/ --> c\n", "x --> c\n", "<!--", "#!x\n"})
	case 21:
		return g.pick([]string{"import ", "import * as " + g.ident() + " from ", "import " + g.ident() + " from ", "import {" + g.ident() + " as " + g.ident() + "} from ", "import {default as " + g.ident() + "} from ", "import " + g.ident() + ", {" + g.ident() + "} from ", "import {'s' as " + g.ident() + "} from ", "export * from ", "export * as " + g.ident() + " from ", "export {" + g.ident() + " as 's'} from ", "export {default} from ", "import defer * as x from ", "import source x from "}) + "'m'" + g.pick([]string{"", " with {type: 'json'}", " assert {type: 'json'}", "\nwith {}"}) + g.pick(separators)
	case 22:
		return "export " + g.pick([]string{"default " + e(), "default function(){}", "default function f(){}", "default class{}", "default async function(){}", "default async\nfunction f(){}", "var " + g.ident() + " = 1", "let " + g.ident(), "const [" + g.ident() + "] = []", "function " + g.ident() + "(){}", "class " + g.ident() + "{}", "{}", "{" + g.ident() + "}", "{" + g.ident() + " as default}", "{" + g.ident() + " as " + g.ident() + "}", "default (class{})", "default (function(){})", "default {}", "default async", "default await x", "default let", "default from"}) + g.pick(separators)
	case 23:
		return "'use strict'" + g.pick(separators) + s()
	case 24:
		return "if (" + e() + ") function " + g.ident() + "(){}" + g.pick([]string{"", " else function " + g.ident() + "(){}", " else ;"})
	case 25:
		return g.pick([]string{"let", "async", "yield", "await", "of", "static", "using", "await using"}) + g.pick([]string{"\n", " ", ""}) + g.pick([]string{"[a] = b", "{a} = b", "x", "x = 1", "function f(){}", "=> 1", "(1)", "`t`", ": 1", "let", "await", "yield", "in x", "of x", "instanceof x", "/ 1 / 2", "++", "\n++\nx"}) + g.pick(separators)
	case 26:
		return e() + g.pick([]string{"\n(", "\n[", "\n`", "\n/", "\n+", "\n-", "\n++", "\n--", "\n.", "\n?.", "\n=>", "\n*", "\nin ", "\ninstanceof "}) + e() + g.pick([]string{")", "]", "`", "/g", "", "", "", "", "", "", "", "", "", ""}) + g.pick(separators)
	case 27:
		return "debugger" + g.pick(separators)
	case 28:
		return ";"
	case 29, 30: // every reserved / contextual word in binding, label, property and strict positions
		w := g.pick(allWords)
		return g.pick([]string{"var " + w + " = 1", w + ": 1", "x." + w, "({" + w + ": 1})", "({" + w + "})", "function " + w + "(){}", "'use strict'; var " + w, "(" + w + ") => 1", "x = " + w, "class " + w + "{}", "let " + w, "function f(" + w + "){}", "'use strict'; " + w + ": 1", "import {x as " + w + "} from 'm'", "export {x as " + w + "}; var x", "try {} catch (" + w + ") {}", "x = {" + w + "(){}}", "x = class { " + w + "(){} static " + w + " = 1 }", "for (var " + w + " of x);", "'use strict'; x = {" + w + "}"}) + g.pick(separators)
	default:
		return e() + g.pick(separators)
	}
}

var allWords = strings.Fields("await break case catch class const continue debugger default delete do else enum export extends false finally for function if import in instanceof new null return super switch this throw true try typeof var void while with yield implements interface let package private protected public static async of get set as from type target meta accessor using arguments eval undefined abstract boolean byte char double final float goto int long native short synchronized throws transient volatile")

func (g *rgen) stmts(d int, max int) string {
	var sb strings.Builder
	for k := g.r.Intn(max + 1); k > 0; k-- {
		sb.WriteString(g.stmt(d))
		sb.WriteString(g.pick([]string{"", "", "\n", ";"}))
	}
	return sb.String()
}

// must-pass inputs of repaired findings (C13-D1 6d63f64, C13-D7 ac301ad, C13-D5 3eb6e21, C13-D9 0ea428f, C13-D2c 7286f4e,
// C13-D2a/D2f cfb4151, C13-D2e 9099367, C13-D3g 20d53e9, C13-D10 177d11f).  C13-D1: identifiers that are
// printed with a \u{...} escape followed by a word, under minify-whitespace + ascii
var mustPassCorpus = []string{
	"var \U00010000; \U00010000 in x", "import {\U00010000 as x} from 'p'", "import * as \U00010000 from 'p'; \U00010000", "export * as \U00010000 from 'p'",
	"x = \U00010000 instanceof y", "for (\U00010000 of y);", "for (var a\U00010000 in y);", "class \U00010000 extends y {}", "x = a\U0001F600 in b", "function f(){ return \U00010000 in y }",
	"var \u00e9; \u00e9 in x", "typeof \U00010000 in y", "void \U00010000 instanceof y", "if (a) \U00010000\nelse b",
	// C13-D7 (fixed by ac301ad): an expression statement must not start with "let ["
	"(let)[x]", "(let)[x] = 1", "function* f(){l\\u0065t[true]\n}", "function f(){ l\\u0065t[x] }", "if (a) (let)[x]; else (let)[y]",
	"x => { (let)[x] }", "(let)[x].y++", "(let)[x]()", "for ((let)[x] of y);", "a = (let)[x]", "(let)?.[x]",
	// C13-D5 (fixed by 3eb6e21): function declaration in an if/label body inside "with"
	"function f(){ with (x) if (a) function g(){} }", "function f(){ with (x) { if (a) function g(){} else function h(){} } }", "function f(){ with (x) L: function g(){} }",
	// C13-D9 (fixed by 0ea428f): a postfix ++/-- followed by a line break ends the statement
	"a++\n[]", "a++\n[0]", "a++\n(0)", "a--\n[b]", "a++\n`t`", "x = a++\n[0]", "a++\n++b", "if (a) b++\n[c]", "function f(){ a++\n(b) }", "a\n++\n[b]",
	// C13-D2c (fixed by 7286f4e): nothing but a comma continues a yield that ends its line
	"function* f(){yield\n/x/}", "function* f(){yield\n/x/g.test(y)}", "function* f(){ x = yield\n/x/ }", "function* f(){yield\n[a]}", "function* f(){yield\n(a)}", "function* f(){yield\n+a}", "function* f(){yield\n,a}",
	// C13-D2a / C13-D2f (fixed by cfb4151): let => x and using => x at the start of a statement
	"let => 1", "using => 1", "(let) => 1", "(using) => 1", "if (a) let => 1", "if (a) using => 1; else using => 2", "x = let => 1", "x = using => using", "using\n=> 1", "function f(){ let => 1 }", "() => { using => 1 }",
	// C13-D2e (fixed by 9099367): yield is an identifier outside generators
	"function f(){ for (yield of x); }", "for (yield of x);", "function f(){ for (yield in x); }", "function f(){ for (yield.a of x); }", "function f(){ for ((yield) of x); }", "for (yield = 0;;) break",
	// C13-D3g (fixed by 20d53e9): a keyword cannot be a shorthand property of a binding pattern or object literal
	// (these must be rejected; if esbuild accepts one again, its output is rejected by node and the lenient-acceptance rule reports it)
	"var {import} = x", "var {if} = x", "let {new} = x", "({import} = x)", "x = {import}", "function f({typeof}){}", "({if}) => 1", "for (var {in} of x);", "var {a, import} = x", "var {a: {if}} = x",
	// C13-D10 (fixed by 177d11f): the head of a for / for-in loop must not start with "let ["
	"for ((let)[x];;);", "for ((let)[x] = 1;;);", "for ((let)[x] in y);", "for ((let)[x] of y);", "for ((let)[x]++;;);", "for ((let)[x].y in z);", "for ((let)[x]();;);", "for ((let)[x] = a in b, c;;);",
	"for (let;;) break", "for (let in {});", "for (a = (let)[x];;) break", "for (;(let)[x];(let)[y]) break", "function f(){ for ((let)[x] in y) for ((let)[z];;) break }",
}

var boundaryCorpus = []string{
	"a\n++b", "a\n--b", "a\n++\nb", "a++\nb", "a--\nb", "a\n++\n--\nb", "i\n++\nj", "var a = 1, b\n++a", "x = a\n(b)", "x = a\n[b]", "x = a\n`t`",
	"x = a\n+b", "x = a\n-b", "x = a\n/b/g", "a = b\n/c/.test(d)", "a = b / c / d", "a = b\n/c/d", "x = {}\n/1/g", "{}\n/1/g", "{} /1/g", "x = function(){}\n/1/g", "function g(){}\n/1/g",
	"if (a) /1/.test(b)", "if (a) b\nelse c", "if (a)\nb\nelse\nc", "while (a) /x/.y", "(a) / 2 / 1", "a[0] /1/ 2", "a++ / 2", "a++ /2/ 3", "typeof /x/", "void /x/g", "x = y in /x/", "a /= 2", "a = /=/", "a = /=/ / 2",
	"return\na", "return\n/x/", "return /x/g", "throw\na", "throw /x/", "for(;;){ break\nL }", "L: for(;;){ continue\nL }", "L: for(;;){ continue L }", "yield\n1", "yield\n/x/", "yield /x/", "yield\n* a", "x = yield", "await\n1",
	"var x\n= 1", "var\nx", "let\nx", "let\n[a] = b", "let\n{a} = b", "let\nlet", "var let\nlet", "do ; while(0) x", "do x\nwhile(0)", "do x; while(0)\ny", "do {} while(0) /1/g",
	"async\nfunction g(){}", "async function\ng(){}", "(async\n() => 1)", "(async\nx => 1)", "x = async\n() => 1", "async () => {}\n(0)", "x = () => {}\n(0)", "x = () => {}\n/1/", "x = a => a\n(0)", "() => {}\n++a",
	"class A { a\nb\n*c(){} }", "class A { get\nx(){} }", "class A { static\nx }", "class A { a = 1\n*c(){} }", "class A { a\n['b'](){} }", "class A { a = 1\n['b'](){} }", "class A { static\nstatic(){} }", "class A { get\n*x(){} }", "class A { async\nx(){} }", "class A { accessor\nx }",
	"a\n?.b", "a\n.b", "a\n?.(b)", "a ?.5 : 1", "a?.5:1", "a ? .5 : 1", "a?.b`t`", "a?.[0]`t`", "new a?.b", "a?.b = 1", "a ?? b || c", "a || b ?? c", "a && b ?? c", "a ?? (b || c)", "(a ?? b) || c",
	"-a ** b", "(-a) ** b", "a ** -b", "+a ** b", "typeof a ** b", "a ** b ** c", "(a ** b) ** c", "++a ** b", "a++ ** b", "delete a ** b", "-(a ** b)",
	"x --> y", "x\n--> y", "--> y", "/* c */ --> y", "/* c\n*/ --> y", "x = 1 <!-- y", "x <!--y\n", "x < !--y", "x<!--y\n;z", "x = a--> b", "x = a-- > b", "if (a --> b) c", "a\n-->b\nc",
	"1..x", "1.0.x", "1 .x", "1.e1.x", "1e1.x", "0x1.x", "1n.x", "08.x", "08.5", "010.x", ".5.x", "1_0.x", "1._", "1.toString()", "1.a", "1in x", "1 in x", "x = 1instanceof y",
	"a\n=> b", "(a)\n=> b", "a =>\nb", "x = {a\n,b}", "x = [a\n,b]", "f(a\n,b)", "a,\nb", "a\n,b", "if (a) function g(){}", "if (a) function g(){} else function h(){}", "L: function g(){}", "L: M: function g(){}", "if (a) L: function g(){}", "while (a) function g(){}",
	"for (var i = 0 in {});", "for (var [i] = 0 in {});", "for (let in {});", "for (let of x);", "for (let.x of y);", "for (let().x of y);", "for (async of x);", "for (async of => 1;;);", "for ((async) of x);", "for (async.x of y);", "for (of of of);", "for (var of of of);", "for (var of in of);", "for (let of = 1;;);", "for (x of y, z);", "for (x in y, z);", "for (a = b in c;;);", "for ((a in b);;);", "for (var x = a in b;;);", "for (var x = (a in b);;);",
}

// one program: a few statements, sometimes wrapped in a function-like context
func genRare(r *Rng) string {
	g := &rgen{r: r}
	body := ""
	for k := r.Range(1, 3); k > 0; k-- {
		body += g.stmt(r.Range(1, 3))
	}
	switch r.Intn(14) {
	case 0:
		return "function f(){" + body + "}"
	case 1:
		return "function f(){'use strict';" + body + "}"
	case 2:
		return "async function f(){" + body + "}"
	case 3:
		return "function* f(){" + body + "}"
	case 4:
		return "async function* f(){" + body + "}"
	case 5:
		return "class A extends B { m(){" + body + "} static { " + g.stmt(1) + " } constructor(){ super(); } #p; #q(){} }"
	case 6:
		return "(async () => {" + body + "})"
	case 7:
		return "'use strict';" + body
	case 8:
		return "x = {m(){" + body + "}, get g(){" + g.stmt(1) + "}, async *ag(){" + g.stmt(1) + "}}"
	default:
		return body
	}
}

// ---------------------------------------------------------------------------
// token-level mutation

func splitTokens(s string) []string {
	var out []string
	i := 0
	isId := func(c byte) bool {
		return c == '_' || c == '$' || (c >= '0' && c <= '9') || (c >= 'a' && c <= 'z') || (c >= 'A' && c <= 'Z') || c >= 0x80
	}
	for i < len(s) {
		j := i + 1
		switch {
		case isId(s[i]):
			for j < len(s) && isId(s[j]) {
				j++
			}
		case s[i] == ' ' || s[i] == '\n' || s[i] == '\t':
			for j < len(s) && (s[j] == ' ' || s[j] == '\t') {
				j++
			}
		case s[i] == '\'' || s[i] == '"' || s[i] == '`':
			for j < len(s) && s[j] != s[i] && s[j] != '\n' {
				if s[j] == '\\' {
					j++
				}
				j++
			}
			if j < len(s) {
				j++
			}
			if j > len(s) {
				j = len(s)
			}
		default:
			ops := []string{">>>=", "...", "===", "!==", "**=", "<<=", ">>=", ">>>", "&&=", "||=", "??=", "<!--", "-->", "=>", "==", "!=", "<=", ">=", "&&", "||", "??", "?.", "++", "--", "+=", "-=", "*=", "/=", "%=", "&=", "|=", "^=", "<<", ">>", "**", "//", "/*", "*/"}
			for _, op := range ops {
				if strings.HasPrefix(s[i:], op) {
					j = i + len(op)
					break
				}
			}
		}
		out = append(out, s[i:j])
		i = j
	}
	return out
}

var mutationTokens = []string{"+", "-", "++", "--", "!", "/", "/x/g", "<", ">", "<!--", "-->", "(", ")", "[", "]", "{", "}", ",", ";", "\n", " ", ".", "?.", "...", "=>", "=", "in", "of", "let", "async", "await", "yield", "static", "get", "set", "new", "typeof", "void", "delete", "class", "function", "`t`", "1", "1_0", ".5", "5.", "a", "??", "||", "**", ":", "?", "#p", "\\u0061", "*", "0", "'s'", "var", "const", "for", "if", "else", "return", "this", "super", "import", "export", "default", "from", "as"}

func mutateJS(r *Rng, src string) string {
	toks := splitTokens(src)
	if len(toks) == 0 {
		return src
	}
	for k := r.Range(1, 2); k > 0; k-- {
		i := r.Intn(len(toks))
		switch r.Intn(8) {
		case 0: // delete
			toks = append(toks[:i:i], toks[i+1:]...)
		case 1: // duplicate
			toks = append(toks[:i+1:i+1], toks[i:]...)
		case 2: // swap with neighbour
			if i+1 < len(toks) {
				toks[i], toks[i+1] = toks[i+1], toks[i]
			}
		case 3, 4: // replace
			toks[i] = r.Pick(mutationTokens)
		case 5, 6: // insert
			toks = append(toks[:i:i], append([]string{r.Pick(mutationTokens)}, toks[i:]...)...)
		default: // whitespace change: newline instead of space or removal of white space
			if strings.TrimSpace(toks[i]) == "" {
				toks[i] = r.Pick([]string{"\n", "", " ", "/**/", "/*\n*/"})
			} else {
				toks = append(toks[:i:i], append([]string{"\n"}, toks[i:]...)...)
			}
		}
		if len(toks) == 0 {
			return ""
		}
	}
	return strings.Join(toks, "")
}

// ---------------------------------------------------------------------------
// Documented exclusions and known findings (each checked by hand on the pinned
// tree, see the report).  They are keyed on the specific syntactic shape, so
// that any other failing input of the same kind is still reported.

var (
	reNewerSyntax     = regexp.MustCompile(`@|\baccessor\b|\busing\b|import\s+(source|defer)\b|import\s*\.\s*(source|defer)\b|\bwith\s*\{|\bassert\s*\{`)
	reNoInit          = regexp.MustCompile(`\b(let|var)\s*[\[{]`)
	reBadTarget       = regexp.MustCompile(`(\+\+|--)\s*\(*[\[{]|[\]}]\)*\s*(\+\+|--|(\*\*|<<|>>>?|&&|\|\||\?\?|[-+*/%&|^])=)`)
	reLetLet          = regexp.MustCompile(`\b(let|const)\b[^;]*\blet\b`)
	reStaticBlock     = regexp.MustCompile(`\bstatic\s*\{`)
	reOctalish        = regexp.MustCompile(`\\[0-9]|(^|[^\w.$\\])0[0-9]`)
	reAsyncArrowAwait = regexp.MustCompile(`async\s*\(?[^)=]*\bawait\b[^)=]*\)?\s*=>`)
	reExportStarEval  = regexp.MustCompile(`export\s*\*\s*as\s*(eval|arguments)\b`)
	reClassCode       = regexp.MustCompile(`\bclass\b`)
	reCatchPattern    = regexp.MustCompile(`catch\s*\(\s*[\[{]`)
	reReexportBinding = regexp.MustCompile(`export\s*\{[^}]*\}\s*from|export\s*\*\s*as|import\s*\*\s*as\s*(eval|arguments)\b|import\s*\{[^}]*\b(eval|arguments)\b`)
	reAliasThenFn     = regexp.MustCompile(`var [\w$]+ ?= ?([\w$]+);\s*(?:async )?function\*? ?([\w$]+)\(`)
	reInfStmt         = regexp.MustCompile(`(Infinity|NaN)\s*(;|\}|$)`)
)

// node accepts, esbuild rejects
func knownRejection(c *glueCase, goal string) string {
	e := c.err1
	switch {
	case (strings.HasPrefix(e, "Legacy octal literals cannot be used in strict mode") || strings.HasPrefix(e, "Legacy octal escape sequences cannot be used in strict mode")) &&
		reClassCode.MatchString(c.src) && reOctalish.MatchString(c.src):
		// ECMA-262 11.2.2: all parts of a ClassDeclaration or ClassExpression are strict mode code
		// (this includes ClassStaticBlock bodies).  12.9.3.1 (Numeric Literals, Early Errors):
		// LegacyOctalIntegerLiteral and NonOctalDecimalIntegerLiteral (010, 08, 09.5, 00) are
		// Syntax Errors in strict mode code.  12.9.4.1 (String Literals, Early Errors):
		// LegacyOctalEscapeSequence (\1..\7, \00, \101, and "\0 [lookahead in {8, 9}]" i.e. '\08')
		// and NonOctalDecimalEscapeSequence (\8, \9) are Syntax Errors in strict mode code.
		// esbuild reports them; V8 (node 20) forgets these two checks for code placed DIRECTLY
		// in a class static block (probed: it does report them in methods, field initialisers,
		// functions nested in the block, "use strict" code, and it reports every other
		// strict-mode restriction inside static blocks).  The same leniency exists for code placed
		// directly in a class heritage (`class y extends 010 {}`) and in a field initialiser
		// (`class { f = 00 }`).  Node is wrong here, not esbuild.
		return "legacy octal literal/escape directly inside class code (static block, heritage, field initialiser): Syntax Error per ECMA-262 (strict mode code), accepted by V8 only"
	case strings.Contains(e, "has already been declared") && reStaticBlock.MatchString(c.src) && reCatchPattern.MatchString(c.src):
		// B.3.4 allows "var e" to redeclare only a simple catch parameter; for a pattern it is an
		// early error, which V8 forgets inside class static blocks (it reports it everywhere else)
		return "var redeclaring a destructured catch parameter inside a class static block: early error per ECMA-262, accepted by V8 only"
	case strings.Contains(e, "Top-level await is currently not supported"):
		return "top-level await with cjs/iife output (documented esbuild restriction)"
	case e == "Invalid assignment target" && (strings.HasSuffix(stripComments(c.mark1), ")") || strings.HasSuffix(stripComments(c.mark1), "`")):
		return "call expression as assignment target: early error in ECMA-262 and esbuild, run-time ReferenceError in V8 (web compatibility)"
	case strings.Contains(e, "An async function cannot be named \"await\""):
		return "recurrence of known finding C13-D2b: `async function await(){}` rejected where await is an identifier (sloppy, non-async context)"
	case reNewerSyntax.MatchString(c.src):
		return "syntax newer than node 20 involved"
	}
	return ""
}

// second Transform differs from the first output
func knownNotFixed(c *glueCase) string {
	if c.err2 != "" && reAsyncArrowAwait.MatchString(c.out1) {
		return "recurrence of known finding C13-D3e: `await` as parameter of an async arrow function accepted"
	}
	if strings.Contains(c.err2, "Cannot use \"let\" as an identifier here") && reLetLet.MatchString(c.out1) {
		return "recurrence of known finding C13-D3c: `let` as a lexically bound name accepted"
	}
	if c.err2 == "" && strings.Contains(c.out1, "\\u{") && strings.Contains(c.out2, "\\uD") {
		return "recurrence of known finding C13-D4d: a string statement that becomes a directive keeps its \\u{...} escape on the first pass and is re-escaped as a surrogate pair on the second"
	}
	if strings.Contains(c.err2, "Invalid assignment target") && reBadTarget.MatchString(c.out1) {
		return "recurrence of known finding C13-D3b: array/object literal as target of update or compound assignment accepted"
	}
	if strings.Contains(c.out1, "__commonJS") && strings.Contains(c.err2, "cannot be used in an ECMAScript module") {
		return "recurrence of known finding C13-D8: a script with a top-level return is wrapped as CommonJS inside ESM output with its sloppy-only identifiers unchanged"
	}
	if c.err2 != "" && reAsyncArrowAwait.MatchString(c.out1) {
		return "recurrence of known finding C13-D3e: `await` as parameter of an async arrow function accepted"
	}
	if reExportStarEval.MatchString(c.src) {
		return "recurrence of known finding C13-D6: `export * as eval/arguments` becomes a binding named eval/arguments in strict code"
	}
	if c.err2 == "" && (strings.Contains(c.out1, "/*") || strings.Contains(c.out1, "//")) && noParens(stripComments(c.out1)) == noParens(stripComments(c.out2)) {
		return "recurrence of known finding C13-D4c: an expression behind a preserved comment gains a pair of parentheses on the second pass"
	}
	if c.err2 == "" && (strings.Contains(c.src, "//!") || strings.Contains(c.src, "/*!") || strings.Contains(c.src, "@license") || strings.Contains(c.src, "@preserve")) {
		return "recurrence of known finding C13-D4b: a stripped legal comment leaves a semicolon that the second pass drops (minify-whitespace)"
	}
	if c.err2 == "" && strings.Contains(c.out1, "switch") {
		for _, m := range reAliasThenFn.FindAllStringSubmatch(c.out1, -1) {
			if m[1] == m[2] {
				return "recurrence of known finding C13-D11: a function declaration kept in a switch case (fix 551782c) is renamed and aliased again by every further pass"
			}
		}
	}
	if c.err2 == "" && reInfStmt.MatchString(c.out1) {
		return "recurrence of known finding C13-D4: numeric literal statement printed as Infinity/NaN is dropped by the second pass"
	}
	return ""
}

// node accepts the input but not the output
func knownInvalidOutput(c *glueCase, goal, nodeErr string) string {
	if reReexportBinding.MatchString(c.src) && (strings.Contains(nodeErr, "eval or arguments") || strings.Contains(nodeErr, "reserved word")) {
		return "recurrence of known finding C13-D6: `export * as eval/arguments` becomes a binding named eval/arguments in strict code"
	}
	if reExportStarEval.MatchString(c.src) && strings.Contains(nodeErr, "eval or arguments") {
		return "recurrence of known finding C13-D6: `export * as eval/arguments` becomes a binding named eval/arguments in strict code"
	}
	return ""
}

func noParens(s string) string {
	return strings.NewReplacer("(", "", ")", "").Replace(s)
}

// node rejects the input in both goals, esbuild accepts it and the output is rejected too
func knownLenient(c *glueCase, nodeErrScript, nodeErrModule, nodeErrOut string) string {
	switch {
	case nodeErrScript == "Illegal return statement" || strings.Contains(nodeErrOut, "Illegal return statement"):
		return "top-level return (allowed by esbuild for CommonJS, rejected by vm.Script)"
	case reNewerSyntax.MatchString(c.src):
		return "syntax newer than node 20 involved"
	case strings.Contains(nodeErrOut, "Invalid regular expression") || strings.HasPrefix(nodeErrScript, "Invalid regular expression"):
		return "regular expression bodies are not validated by esbuild (documented)"
	case strings.Contains(nodeErrOut, "Missing initializer in destructuring declaration") && reNoInit.MatchString(c.out1):
		return "recurrence of known finding C13-D3a: destructuring declaration without initializer accepted"
	case reReexportBinding.MatchString(c.src):
		return "recurrence of known finding C13-D6: `export * as eval/arguments` becomes a binding named eval/arguments in strict code"
	case reBadTarget.MatchString(c.out1):
		return "recurrence of known finding C13-D3b: array/object literal as target of update or compound assignment accepted"
	case (awaitish.MatchString(c.src) || strings.Contains(c.out1, "await")) && (strings.Contains(c.src, "import") || strings.Contains(c.src, "export") || c.v.format == api.FormatESModule):
		return "recurrence of known finding C13-D3d: `await` used as an identifier together with ES module syntax accepted"
	case reAsyncArrowAwait.MatchString(c.out1):
		return "recurrence of known finding C13-D3e: `await` as parameter of an async arrow function accepted"
	case strings.Contains(nodeErrOut, "let is disallowed as a lexically bound name") && reLetLet.MatchString(c.out1):
		return "recurrence of known finding C13-D3c: `let` as a lexically bound name accepted"
	}
	return ""
}

// ---------------------------------------------------------------------------
// Fixed corpus: one replay per known finding (listed in known_findings.d/C13.json).
// Each is evaluated on the current tree; while it still fails it is reported
// with its own failure kind and scenario tag, so that the driver prints the
// KNOWN-FINDING line and any other failing input is still a violation.

type knownReplay struct {
	scenario string
	kind     string
	src      string
	v        variant
	pred     string // rejected | passthrough | notfixed | unreparsable
	expect   string
}

var knownReplays = []knownReplay{
	{"known-D2b", "known-D2b-async-function-named-await-rejected", "function f(){ async function await(){} }", variant{}, "rejected", "accepted (valid sloppy-mode script)"},
	{"known-D3a", "known-D3a-destructuring-declaration-without-initializer-accepted", "let [a];", variant{}, "passthrough", "an error"},
	{"known-D3b", "known-D3b-pattern-as-update-or-compound-assignment-target-accepted", "[a] += 1; ++[b]", variant{}, "passthrough", "an error"},
	{"known-D3c", "known-D3c-let-as-lexically-bound-name-accepted", "let [let] = 1", variant{}, "passthrough", "an error"},
	{"known-D3d", "known-D3d-await-identifier-with-module-syntax-accepted", "function f(){ return aw\\u0061it } import.meta", variant{}, "passthrough", "an error"},
	{"known-D3e", "known-D3e-await-parameter-of-async-arrow-accepted", "function f(){ async (await) => ({}) }", variant{}, "passthrough", "an error"},
	{"known-D6", "known-D6-export-star-as-eval-creates-strict-binding", "export * as eval from 'm'", variant{format: api.FormatESModule}, "invalidout", "valid module output (the input is a valid module)"},
	{"known-D4c", "known-D4c-parentheses-added-behind-preserved-comment", "class Foo { foo =/**/() => super.x }", variant{}, "notfixed", "second Transform reproduces the first output"},
	{"known-D8", "known-D8-commonjs-wrapper-in-esm-keeps-sloppy-identifiers", "return\nlet", variant{format: api.FormatESModule}, "unreparsable", "an error, or ESM output that is valid strict code"},
	{"known-D11", "known-D11-function-in-switch-case-aliased-again-by-every-pass", "switch (0) { default: function f() {} }", variant{}, "notfixed", "second Transform reproduces the first output"},
	{"known-D4d", "known-D4d-directive-string-escape-not-stable", "-0;\n'\\u{1F600}';\n", variant{}, "notfixed", "second Transform reproduces the first output"},
	{"known-D4a", "known-D4a-infinity-statement-dropped-by-second-pass", "if (x) 1e400; else y", variant{}, "notfixed", "second Transform reproduces the first output"},
	{"known-D4b", "known-D4b-semicolon-after-stripped-legal-comment", "if (1) {foo() //! test\n}", variant{mw: true}, "notfixed", "second Transform reproduces the first output"},
}

func replayKnown(st *Stats) {
	type row struct {
		out1, err1, out2, err2 string
	}
	rows := make([]row, len(knownReplays))
	var items []nodeItem
	for i, k := range knownReplays {
		rows[i].out1, rows[i].err1 = transform(k.src, k.v.opts(false))
		if rows[i].err1 == "" {
			rows[i].out2, rows[i].err2 = transform(rows[i].out1, k.v.opts(true))
		}
		items = append(items, nodeItem{k.src, "script"}, nodeItem{k.src, "module"}, nodeItem{rows[i].out1, "script"}, nodeItem{rows[i].out1, "module"})
	}
	nv, err := nodeSyntax(items)
	if err != nil {
		st.Fail("node-oracle-unavailable", err.Error(), nil, nil)
		return
	}
	for i, k := range knownReplays {
		srcOK := nv[4*i].Ok || nv[4*i+1].Ok
		outOK := nv[4*i+2].Ok || nv[4*i+3].Ok
		r := rows[i]
		input := map[string]string{"scenario": k.scenario, "input": k.src, "options": k.v.String(), "out1": r.out1}
		fails := false
		got := ""
		switch k.pred {
		case "rejected":
			fails = srcOK && r.err1 != ""
			got = r.err1
		case "passthrough":
			fails = !srcOK && r.err1 == "" && !outOK
			got = "accepted; output rejected by node: " + nv[4*i+2].Err
		case "notfixed":
			fails = r.err1 == "" && r.err2 == "" && r.out1 != r.out2
			got = r.out2
		case "invalidout":
			fails = srcOK && r.err1 == "" && !outOK
			got = "node: " + nv[4*i+3].Err
		case "unreparsable":
			fails = r.err1 == "" && (r.err2 != "" || !outOK)
			got = r.err2 + " / node: " + nv[4*i+3].Err
		}
		st.Note("known-finding-replay", k.scenario, true)
		if fails {
			recordFail(st, k.kind, input, got, k.expect)
		} else {
			st.Histogram["known finding no longer reproduces: "+k.scenario]++
		}
	}
}
