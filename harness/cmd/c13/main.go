package main

// C13: accepted input yields valid, stable output; valid input is accepted.
//
// Correspondence cases: operator table (js_ast.OpTable), keyword tables
// (js_lexer.Keywords / StrictModeReservedWords and the real lexer), printer
// token gluing on hand-built js_ast trees printed by js_printer.Print.
// Glue streams through api.Transform with the property's own predicate:
//   fixed point   out2 = Transform(out1) must equal out1 byte for byte
//   validity      out1 must be accepted by node (script/module goal of the input)
//   acceptance    a program node accepts must be accepted by esbuild
// Inputs: hand-built trees, hlib/jsgen programs, every JS literal of the
// repository's own parser/printer tests (extracted with go/ast), a grammar
// generator biased to rare productions (gen.go) and mutations of all of those.

import (
	"fmt"
	"math"
	"os"
	"path/filepath"
	"strings"

	"github.com/evanw/esbuild/internal/ast"
	"github.com/evanw/esbuild/internal/config"
	"github.com/evanw/esbuild/internal/js_ast"
	"github.com/evanw/esbuild/internal/js_lexer"
	"github.com/evanw/esbuild/internal/js_printer"
	"github.com/evanw/esbuild/internal/logger"
	"github.com/evanw/esbuild/internal/renamer"
	. "github.com/evanw/esbuild/verifharness/hlib"
)

func main() { Main("c13", runC13) }

// ---------------------------------------------------------------------------
// expression trees of the modelled fragment (mirror of coq/C13/Token.v expr)

type xkind int

const (
	xId xkind = iota
	xNum
	xRe
	xDot
	xUn
	xBin
	xCond  // a ? b : c   (a = test, b = yes, c = no)
	xIndex // a[b]
	xCall  // a(args...)
	xNew   // new a(args...)
)

type xexpr struct {
	k     xkind
	s     string // identifier / digits / regexp body / property name
	f     string // regexp flags
	op    js_ast.OpCode
	a, b  *xexpr
	c     *xexpr
	args  []*xexpr
	value float64
	smw   string // xNum: the text under minify-whitespace when it differs from s
	neg   bool   // xNum: the literal is -value (s holds the digits of the absolute value)
}

var coqOpNames = []string{"UPos", "UNeg", "UCpl", "UNot", "UVoid", "UTypeof", "UDelete", "UPreDec", "UPreInc", "UPostDec", "UPostInc",
	"BAdd", "BSub", "BMul", "BDiv", "BRem", "BPow", "BLt", "BLe", "BGt", "BGe", "BIn", "BInstanceof",
	"BShl", "BShr", "BUShr", "BLooseEq", "BLooseNe", "BStrictEq", "BStrictNe",
	"BNullish", "BLogOr", "BLogAnd", "BBitOr", "BBitAnd", "BBitXor", "BComma",
	"BAssign", "BAddAssign", "BSubAssign", "BMulAssign", "BDivAssign", "BRemAssign", "BPowAssign",
	"BShlAssign", "BShrAssign", "BUShrAssign", "BBitOrAssign", "BBitAndAssign", "BBitXorAssign",
	"BNullishAssign", "BLogOrAssign", "BLogAndAssign", "UAwait", "UYield"}

// EAwait is not an operator of js_ast.OpTable; the model treats it as one more keyword prefix operator
const opAwait = js_ast.BinOpLogicalAndAssign + 1

// EYield with an operand (no star): one more keyword prefix operator of the model, of level LAssign
const opYield = js_ast.BinOpLogicalAndAssign + 2

func (e *xexpr) coq(mw bool) string {
	switch e.k {
	case xId:
		return "(EId " + CBytes([]byte(asciiIdent(e.s))) + ")"
	case xNum:
		if mw && e.smw != "" {
			e = &xexpr{k: xNum, s: e.smw, neg: e.neg}
		}
		if e.neg {
			// abstraction of the model: a negative numeric literal is the unary-minus tree it is printed as
			// (printNumber: "-" behind printSpaceBeforeOperator, "(-1)" at level >= LPrefix; "**" puts a number base at LCall)
			return "(EUn UNeg (ENum " + CBytes([]byte(e.s)) + "))"
		}
		return "(ENum " + CBytes([]byte(e.s)) + ")"
	case xRe:
		return "(ERe " + CBytes([]byte(e.s)) + " " + CBytes([]byte(e.f)) + ")"
	case xDot:
		return "(EDot " + e.a.coq(mw) + " " + CBytes([]byte(e.s)) + ")"
	case xUn:
		return "(EUn " + coqOpNames[e.op] + " " + e.a.coq(mw) + ")"
	case xCond:
		return "(ECond " + e.a.coq(mw) + " " + e.b.coq(mw) + " " + e.c.coq(mw) + ")"
	case xIndex:
		return "(EIndex " + e.a.coq(mw) + " " + e.b.coq(mw) + ")"
	case xCall, xNew:
		args := "ANil"
		for i := len(e.args) - 1; i >= 0; i-- {
			args = "(ACons " + e.args[i].coq(mw) + " " + args + ")"
		}
		if e.k == xCall {
			return "(ECall " + e.a.coq(mw) + " " + args + ")"
		}
		return "(ENew " + e.a.coq(mw) + " " + args + ")"
	default:
		return "(EBin " + coqOpNames[e.op] + " " + e.a.coq(mw) + " " + e.b.coq(mw) + ")"
	}
}

// the text of an identifier under the ASCII-only charset (independent of the printer:
// astral code points become \u{HEX}; the pool has no other non-ASCII characters)
func asciiIdent(s string) string {
	var sb strings.Builder
	for _, c := range s {
		if c > 0xFFFF {
			fmt.Fprintf(&sb, "\\u{%X}", c)
		} else {
			sb.WriteRune(c)
		}
	}
	return sb.String()
}

type treeBuilder struct {
	symbols []ast.Symbol
	byName  map[string]uint32
}

func (tb *treeBuilder) ref(name string) ast.Ref {
	if i, ok := tb.byName[name]; ok {
		return ast.Ref{SourceIndex: 0, InnerIndex: i}
	}
	i := uint32(len(tb.symbols))
	tb.symbols = append(tb.symbols, ast.Symbol{OriginalName: name, Kind: ast.SymbolUnbound, Link: ast.InvalidRef})
	tb.byName[name] = i
	return ast.Ref{SourceIndex: 0, InnerIndex: i}
}

func (tb *treeBuilder) build(e *xexpr) js_ast.Expr {
	switch e.k {
	case xId:
		return js_ast.Expr{Data: &js_ast.EIdentifier{Ref: tb.ref(e.s)}}
	case xNum:
		if e.neg {
			return js_ast.Expr{Data: &js_ast.ENumber{Value: math.Copysign(e.value, -1)}}
		}
		return js_ast.Expr{Data: &js_ast.ENumber{Value: e.value}}
	case xRe:
		return js_ast.Expr{Data: &js_ast.ERegExp{Value: "/" + e.s + "/" + e.f}}
	case xDot:
		return js_ast.Expr{Data: &js_ast.EDot{Target: tb.build(e.a), Name: e.s}}
	case xCond:
		return js_ast.Expr{Data: &js_ast.EIf{Test: tb.build(e.a), Yes: tb.build(e.b), No: tb.build(e.c)}}
	case xIndex:
		return js_ast.Expr{Data: &js_ast.EIndex{Target: tb.build(e.a), Index: tb.build(e.b)}}
	case xCall, xNew:
		var args []js_ast.Expr
		for _, a := range e.args {
			args = append(args, tb.build(a))
		}
		if e.k == xNew {
			return js_ast.Expr{Data: &js_ast.ENew{Target: tb.build(e.a), Args: args}}
		}
		// what the parser records for "a.b()" and "a[b]()"; without it the printer emits "(0, a.b)()"
		kind := js_ast.NormalCall
		if e.a.k == xDot || e.a.k == xIndex {
			kind = js_ast.TargetWasOriginallyPropertyAccess
		}
		return js_ast.Expr{Data: &js_ast.ECall{Target: tb.build(e.a), Args: args, Kind: kind}}
	case xUn:
		if e.op == opAwait {
			return js_ast.Expr{Data: &js_ast.EAwait{Value: tb.build(e.a)}}
		}
		if e.op == opYield {
			return js_ast.Expr{Data: &js_ast.EYield{ValueOrNil: tb.build(e.a)}}
		}
		return js_ast.Expr{Data: &js_ast.EUnary{Op: e.op, Value: tb.build(e.a), WasOriginallyTypeofIdentifier: true, WasOriginallyDeleteOfIdentifierOrPropertyAccess: true}}
	default:
		return js_ast.Expr{Data: &js_ast.EBinary{Op: e.op, Left: tb.build(e.a), Right: tb.build(e.b)}}
	}
}

// prints the expression as one expression statement with the real printer
func printTree(e *xexpr, minifyWhitespace bool) string {
	tb := &treeBuilder{byName: map[string]uint32{}}
	expr := tb.build(e)
	symbols := ast.NewSymbolMap(1)
	symbols.SymbolsForSource[0] = tb.symbols
	tree := js_ast.AST{Parts: []js_ast.Part{{Stmts: []js_ast.Stmt{{Data: &js_ast.SExpr{Value: expr}}}}}}
	res := js_printer.Print(tree, symbols, renamer.NewNoOpRenamer(symbols), js_printer.Options{MinifyWhitespace: minifyWhitespace, ASCIIOnly: true})
	return strings.TrimSuffix(strings.TrimSuffix(string(res.JS), ";\n"), ";")
}

// prints the expression as the initialiser of a for loop (printed with the forbidIn flag);
// returns the whole statement and the initialiser alone
func printTreeForInit(e *xexpr, minifyWhitespace bool) (string, string) {
	tb := &treeBuilder{byName: map[string]uint32{}}
	expr := tb.build(e)
	symbols := ast.NewSymbolMap(1)
	symbols.SymbolsForSource[0] = tb.symbols
	loop := &js_ast.SFor{InitOrNil: js_ast.Stmt{Data: &js_ast.SExpr{Value: expr}}, Body: js_ast.Stmt{Data: js_ast.SEmptyShared}, IsSingleLineBody: true}
	tree := js_ast.AST{Parts: []js_ast.Part{{Stmts: []js_ast.Stmt{{Data: loop}}}}}
	res := js_printer.Print(tree, symbols, renamer.NewNoOpRenamer(symbols), js_printer.Options{MinifyWhitespace: minifyWhitespace, ASCIIOnly: true})
	full := string(res.JS)
	head, tail := "for (", "; ; )"
	if minifyWhitespace {
		head, tail = "for(", ";;)"
	}
	k := strings.LastIndex(full, tail)
	if !strings.HasPrefix(full, head) || k < 0 {
		panic("unexpected for-loop print: " + full)
	}
	return full, full[len(head):k]
}

// a top-level "await" turns the file into a module (strict code: "delete a", "with", octal ... become errors for
// reasons outside the modelled fragment) and "yield" is an operator only inside a generator, so trees with await
// or yield are checked by the correspondence only
func containsAwait(e *xexpr) bool {
	if e == nil {
		return false
	}
	if e.k == xUn && (e.op == opAwait || e.op == opYield) {
		return true
	}
	for _, a := range e.args {
		if containsAwait(a) {
			return true
		}
	}
	return containsAwait(e.a) || containsAwait(e.b) || containsAwait(e.c)
}

func containsIn(e *xexpr) bool {
	if e == nil {
		return false
	}
	if e.k == xBin && e.op == js_ast.BinOpIn {
		return true
	}
	for _, a := range e.args {
		if containsIn(a) {
			return true
		}
	}
	return containsIn(e.a) || containsIn(e.b) || containsIn(e.c)
}

var identPool = []string{"a\U00010000", "x1\U00020000", "let", "a", "b", "c", "x1", "$", "_", "of", "get", "set", "async", "static", "type", "as", "from", "in1", "typeofx", "voidy", "i", "n", "instance", "delete_", "Z9", "await_", "e", "E1", "x", "in_", "this", "null", "true", "false"}

const nTargetIdents = 30 // prefix of identPool that may be assigned to

var propPool = []string{"a", "b", "length", "x1", "$", "_p", "e", "E", "toString", "n0", "e1", "x", "of"}
var reBodies = []string{"x", "a+", "ab*c", "=", "==", "script", "SCRIPT>", "Script x", "scrip", "(?:a|b)", " ", "a b", "^$", "-->", "<!--", "-", ".", "!--", "a+?", "a{2}"}
var reFlags = []string{"", "g", "i", "gi", "m", "s", "u", "y", "d", "gimsuy"}

// numeric literals that are not plain integers, with the text printNonNegativeFloat is expected to produce
// (written down by hand from the shortest round-trip representation, not taken from the printer):
// only a text without ".", "e" and "x" needs the space before a following "."
var specialNums = []xexpr{
	{k: xNum, value: 1.5, s: "1.5"}, {k: xNum, value: 12.25, s: "12.25"}, {k: xNum, value: 1000.5, s: "1000.5"},
	{k: xNum, value: 1000, s: "1e3"}, {k: xNum, value: 12000, s: "12e3"}, {k: xNum, value: 1500000, s: "15e5"}, {k: xNum, value: 1e21, s: "1e21"}, {k: xNum, value: 1e12, s: "1e12"},
	{k: xNum, value: 1.5e300, s: "15e299"}, {k: xNum, value: 1e-7, s: "1e-7"}, {k: xNum, value: 5e-7, s: "5e-7"}, {k: xNum, value: 1.5e-7, s: "15e-8"},
	{k: xNum, value: 123456789012, s: "123456789012"}, {k: xNum, value: 9007199254740992, s: "9007199254740992"},
	{k: xNum, value: 0xFFFFFFFFFFFF, s: "281474976710655", smw: "0xffffffffffff"}, {k: xNum, value: 0xFFFFFFFFFFFFF, s: "4503599627370495", smw: "0xfffffffffffff"},
	{k: xNum, value: 0xABCDEF012345E, s: "3022415463593054", smw: "0xabcdef012345e"},
	// minify-whitespace strips the zero in front of the decimal point: the text starts with "."
	{k: xNum, value: 0.5, s: "0.5", smw: ".5"}, {k: xNum, value: 0.25, s: "0.25", smw: ".25"}, {k: xNum, value: 0.05, s: "0.05", smw: ".05"}, {k: xNum, value: 0.001, s: "1e-3", smw: ".001"},
}

func genNum(r *Rng) *xexpr {
	if r.Chance(20) {
		e := specialNums[r.Intn(len(specialNums))]
		e.neg = r.Chance(15)
		return &e
	}
	var v int64
	switch r.Intn(4) {
	case 0:
		v = int64(r.Intn(10))
	case 1:
		v = int64(r.Intn(1000))
	case 2:
		v = int64(r.Intn(1000000))
	default:
		v = int64(r.U64() % (1 << 31))
	}
	for v >= 1000 && v%10 == 0 {
		v++
	}
	return &xexpr{k: xNum, s: fmt.Sprint(v), value: float64(v), neg: r.Chance(15)}
}

// "++/re/.x" is valid JavaScript, but the specification lexer of LexSpec.v
// chooses the division goal after "++"/"--" (documented restriction of the
// modelled fragment), so update targets never start with a regular expression
func leftmostIsRegex(e *xexpr) bool {
	for e.k == xDot || e.k == xIndex || e.k == xCall {
		e = e.a
	}
	return e.k == xRe
}

func genTarget(r *Rng, depth int) *xexpr {
	if depth > 0 && r.Chance(35) {
		base := genTree(r, depth-1)
		if leftmostIsRegex(base) {
			base = &xexpr{k: xId, s: identPool[r.Intn(nTargetIdents)]}
		}
		if r.Chance(35) {
			return &xexpr{k: xIndex, a: base, b: genTree(r, depth-1)}
		}
		return &xexpr{k: xDot, a: base, s: r.Pick(propPool)}
	}
	return &xexpr{k: xId, s: identPool[r.Intn(nTargetIdents)]}
}

var prefixOps = []js_ast.OpCode{js_ast.UnOpPos, js_ast.UnOpNeg, js_ast.UnOpCpl, js_ast.UnOpNot, js_ast.UnOpVoid, js_ast.UnOpTypeof, js_ast.UnOpDelete, js_ast.UnOpPreDec, js_ast.UnOpPreInc, opAwait, opYield}

// operators whose gluing is delicate get extra weight
var hotBin = []js_ast.OpCode{js_ast.BinOpAdd, js_ast.BinOpSub, js_ast.BinOpLt, js_ast.BinOpGt, js_ast.BinOpDiv, js_ast.BinOpIn, js_ast.BinOpInstanceof, js_ast.BinOpShl, js_ast.BinOpPow, js_ast.BinOpNullishCoalescing, js_ast.BinOpLogicalOr}

var leavesIdOnly bool

func genTree(r *Rng, depth int) *xexpr {
	if depth <= 0 || r.Chance(18) {
		if leavesIdOnly {
			return &xexpr{k: xId, s: identPool[r.Intn(nTargetIdents)]}
		}
		switch r.Intn(10) {
		case 0, 1, 2, 3, 4:
			return &xexpr{k: xId, s: r.Pick(identPool)}
		case 5, 6, 7:
			return genNum(r)
		default:
			return &xexpr{k: xRe, s: r.Pick(reBodies), f: r.Pick(reFlags)}
		}
	}
	switch r.Intn(17) {
	case 13, 14, 15, 16:
		k := xCall
		if r.Bool() {
			k = xNew
		}
		e := &xexpr{k: k, a: genTree(r, depth-1)}
		for i, na := 0, []int{0, 0, 1, 1, 2, 3}[r.Intn(6)]; i < na; i++ {
			e.args = append(e.args, genTree(r, depth-1))
		}
		return e
	case 10, 11:
		return &xexpr{k: xCond, a: genTree(r, depth-1), b: genTree(r, depth-1), c: genTree(r, depth-1)}
	case 12:
		return &xexpr{k: xIndex, a: genTree(r, depth-1), b: genTree(r, depth-1)}
	case 0:
		return &xexpr{k: xDot, a: genTree(r, depth-1), s: r.Pick(propPool)}
	case 1, 2, 3:
		op := prefixOps[r.Intn(len(prefixOps))]
		if op == js_ast.UnOpPreDec || op == js_ast.UnOpPreInc {
			return &xexpr{k: xUn, op: op, a: genTarget(r, depth-1)}
		}
		return &xexpr{k: xUn, op: op, a: genTree(r, depth-1)}
	case 4:
		op := js_ast.UnOpPostDec
		if r.Bool() {
			op = js_ast.UnOpPostInc
		}
		return &xexpr{k: xUn, op: op, a: genTarget(r, depth-1)}
	default:
		var op js_ast.OpCode
		if r.Chance(55) {
			op = hotBin[r.Intn(len(hotBin))]
		} else {
			op = js_ast.BinOpAdd + js_ast.OpCode(r.Intn(int(js_ast.BinOpLogicalAndAssign-js_ast.BinOpAdd)+1))
		}
		if op >= js_ast.BinOpAssign {
			return &xexpr{k: xBin, op: op, a: genTarget(r, depth-1), b: genTree(r, depth-1)}
		}
		return &xexpr{k: xBin, op: op, a: genTree(r, depth-1), b: genTree(r, depth-1)}
	}
}

// the pairs/triples of adjacent operators the gluing rules are about, exhaustively
func gluingGrid() []*xexpr {
	id := func(s string) *xexpr { return &xexpr{k: xId, s: s} }
	var out []*xexpr
	pre := prefixOps
	post := []js_ast.OpCode{js_ast.UnOpPostDec, js_ast.UnOpPostInc}
	var bins []js_ast.OpCode
	for op := js_ast.BinOpAdd; op <= js_ast.BinOpLogicalAndAssign; op++ {
		bins = append(bins, op)
	}
	un := func(op js_ast.OpCode, a *xexpr) *xexpr { return &xexpr{k: xUn, op: op, a: a} }
	bin := func(op js_ast.OpCode, a, b *xexpr) *xexpr { return &xexpr{k: xBin, op: op, a: a, b: b} }
	// prefix-prefix, binary-prefix, postfix-binary, binary-prefix-prefix
	for _, p := range pre {
		for _, q := range pre {
			if p == js_ast.UnOpPreDec || p == js_ast.UnOpPreInc {
				continue
			}
			out = append(out, un(p, un(q, id("a"))))
		}
	}
	isHot := map[js_ast.OpCode]bool{js_ast.BinOpAdd: true, js_ast.BinOpSub: true, js_ast.BinOpLt: true, js_ast.BinOpGt: true, js_ast.BinOpDiv: true, js_ast.BinOpShl: true, js_ast.BinOpIn: true, js_ast.BinOpAssign: true, js_ast.BinOpAddAssign: true, js_ast.BinOpSubAssign: true, js_ast.BinOpDivAssign: true, js_ast.BinOpLe: true}
	for _, b := range bins {
		for qi, q := range pre {
			if !isHot[b] && qi != int(b)%len(pre) {
				continue
			}
			out = append(out, bin(b, id("a"), un(q, id("b"))))
			if b < js_ast.BinOpAssign {
				out = append(out, bin(b, un(post[0], id("a")), un(q, id("b"))), bin(b, un(post[1], id("a")), id("b")))
				out = append(out, bin(b, id("a"), un(js_ast.UnOpNot, un(q, id("b")))))
				out = append(out, bin(b, id("a"), un(js_ast.UnOpNeg, un(q, id("b")))))
			}
		}
		out = append(out, bin(b, id("a"), &xexpr{k: xRe, s: "x", f: "g"}), bin(b, id("a"), &xexpr{k: xRe, s: "script", f: ""}), bin(b, id("a"), &xexpr{k: xRe, s: "=", f: ""}))
		out = append(out, bin(b, id("a"), &xexpr{k: xNum, s: "1", value: 1}))
		if b < js_ast.BinOpAssign {
			out = append(out, bin(b, &xexpr{k: xNum, s: "1", value: 1}, id("b")), bin(b, &xexpr{k: xRe, s: "x", f: ""}, id("b")))
			out = append(out, bin(b, &xexpr{k: xDot, a: &xexpr{k: xNum, s: "1", value: 1}, s: "e"}, id("b")))
		}
	}
	for _, n := range []string{"0", "1", "9", "10", "999", "1234", "99999", "1000001"} {
		var v float64
		fmt.Sscan(n, &v)
		out = append(out, &xexpr{k: xDot, a: &xexpr{k: xNum, s: n, value: v}, s: "e"})
		out = append(out, un(js_ast.UnOpTypeof, &xexpr{k: xNum, s: n, value: v}))
		out = append(out, bin(js_ast.BinOpIn, &xexpr{k: xNum, s: n, value: v}, id("a")))
	}
	out = append(out, &xexpr{k: xDot, a: &xexpr{k: xRe, s: "x", f: ""}, s: "e"}, bin(js_ast.BinOpIn, &xexpr{k: xRe, s: "x", f: ""}, id("a")), bin(js_ast.BinOpInstanceof, &xexpr{k: xRe, s: "x", f: "g"}, id("a")))
	for _, b := range []js_ast.OpCode{js_ast.BinOpIn, js_ast.BinOpInstanceof, js_ast.BinOpAdd, js_ast.BinOpComma, js_ast.BinOpAssign} {
		out = append(out, bin(b, id("a\U00010000"), id("b")), bin(b, id("b"), id("a\U00010000")))
		if b != js_ast.BinOpAssign {
			out = append(out, bin(b, un(js_ast.UnOpPostInc, id("a\U00010000")), id("b")))
		}
	}
	out = append(out, un(js_ast.UnOpTypeof, id("a\U00010000")), &xexpr{k: xDot, a: id("a\U00010000"), s: "e"}, bin(js_ast.BinOpIn, un(js_ast.UnOpVoid, id("a\U00010000")), id("x1\U00020000")))
	// conditional and index access in every operand position that decides about parentheses
	cond := func(a, b, c *xexpr) *xexpr { return &xexpr{k: xCond, a: a, b: b, c: c} }
	idx := func(a, b *xexpr) *xexpr { return &xexpr{k: xIndex, a: a, b: b} }
	abc := cond(id("a"), id("b"), id("c"))
	out = append(out, abc, cond(abc, abc, abc), cond(bin(js_ast.BinOpAssign, id("a"), id("b")), bin(js_ast.BinOpAssign, id("a"), id("b")), bin(js_ast.BinOpAssign, id("a"), id("b"))),
		cond(bin(js_ast.BinOpComma, id("a"), id("b")), bin(js_ast.BinOpComma, id("a"), id("b")), bin(js_ast.BinOpComma, id("a"), id("b"))),
		cond(bin(js_ast.BinOpNullishCoalescing, id("a"), id("b")), un(js_ast.UnOpNot, id("b")), &xexpr{k: xRe, s: "x", f: "g"}),
		cond(&xexpr{k: xNum, s: "1", value: 1}, &xexpr{k: xNum, s: "2", value: 2}, &xexpr{k: xNum, s: "3", value: 3}),
		cond(un(js_ast.UnOpPostInc, id("a")), un(js_ast.UnOpPreDec, id("b")), un(js_ast.UnOpNeg, id("c"))),
		un(js_ast.UnOpNot, abc), un(js_ast.UnOpTypeof, abc), &xexpr{k: xDot, a: abc, s: "e"}, idx(abc, abc), idx(id("a"), bin(js_ast.BinOpComma, id("b"), id("c"))),
		idx(&xexpr{k: xNum, s: "1", value: 1}, id("a")), idx(&xexpr{k: xRe, s: "x", f: ""}, &xexpr{k: xNum, s: "0", value: 0}), idx(un(js_ast.UnOpPostInc, id("a")), id("b")),
		un(js_ast.UnOpPostInc, idx(id("a"), id("b"))), un(js_ast.UnOpPreInc, idx(id("a"), id("b"))), idx(idx(id("a"), id("b")), id("c")), &xexpr{k: xDot, a: idx(id("a"), id("b")), s: "e"}, idx(&xexpr{k: xDot, a: id("a"), s: "e"}, id("b")),
		bin(js_ast.BinOpAssign, idx(id("a"), id("b")), abc), bin(js_ast.BinOpAddAssign, idx(id("a"), id("b")), id("c")), bin(js_ast.BinOpPow, idx(id("a"), id("b")), un(js_ast.UnOpNeg, id("c"))))
	for _, b := range bins {
		out = append(out, bin(b, id("x"), abc))
		if b < js_ast.BinOpAssign {
			out = append(out, bin(b, abc, id("x")))
		}
	}
	// calls and new-expressions: every callee / operand position that decides about parentheses or about the "()" of new
	call := func(f *xexpr, args ...*xexpr) *xexpr { return &xexpr{k: xCall, a: f, args: args} }
	nw := func(f *xexpr, args ...*xexpr) *xexpr { return &xexpr{k: xNew, a: f, args: args} }
	dot := func(a *xexpr, s string) *xexpr { return &xexpr{k: xDot, a: a, s: s} }
	num1 := &xexpr{k: xNum, s: "1", value: 1}
	ab := bin(js_ast.BinOpComma, id("a"), id("b"))
	asg := bin(js_ast.BinOpAssign, id("a"), id("b"))
	out = append(out, call(id("a")), call(id("a"), id("b")), call(id("a"), id("b"), id("c"), id("d")), call(id("a"), ab, ab), call(id("a"), asg, abc, asg),
		call(call(id("a"))), call(call(id("a"), id("b")), id("c")), call(dot(id("a"), "b")), call(idx(id("a"), id("b")), id("c")), dot(call(id("a")), "b"), idx(call(id("a")), id("b")),
		call(abc), call(asg), call(ab), call(un(js_ast.UnOpNot, id("a"))), call(un(js_ast.UnOpPostInc, id("a"))), call(bin(js_ast.BinOpAdd, id("a"), id("b"))), call(num1), call(&xexpr{k: xRe, s: "x", f: "g"}),
		nw(id("a")), nw(id("a"), id("b")), nw(id("a"), id("b"), id("c")), nw(id("a"), ab), nw(id("a"), asg, abc),
		nw(call(id("a"))), nw(call(id("a")), id("b")), nw(dot(call(id("a")), "b")), nw(dot(call(id("a")), "b"), id("c")), nw(idx(call(id("a")), id("b"))), nw(dot(dot(call(id("a")), "b"), "c")),
		nw(call(dot(id("a"), "b"))), nw(call(call(id("a")))), nw(idx(id("a"), call(id("b")))), nw(dot(id("a"), "b")), nw(dot(id("a"), "b"), call(id("c"))),
		nw(nw(id("a"))), nw(nw(id("a")), id("b")), nw(nw(id("a"), id("b"))), nw(nw(nw(id("a")))), nw(dot(nw(id("a")), "b")), nw(idx(nw(id("a")), id("b"))), nw(call(nw(id("a")))),
		dot(nw(id("a")), "b"), idx(nw(id("a")), id("b")), call(nw(id("a"))), call(nw(id("a")), id("b")), call(dot(nw(id("a")), "b")), dot(nw(id("a"), id("b")), "c"), call(nw(id("a"), id("b"))),
		nw(abc), nw(asg), nw(ab), nw(un(js_ast.UnOpNot, id("a"))), nw(un(js_ast.UnOpPostInc, id("a"))), nw(bin(js_ast.BinOpAdd, id("a"), id("b"))), nw(num1), nw(&xexpr{k: xRe, s: "x", f: "g"}), nw(dot(num1, "e")),
		un(js_ast.UnOpPostInc, dot(nw(id("a")), "b")), un(js_ast.UnOpPreInc, dot(call(id("a")), "b")), un(js_ast.UnOpPreDec, idx(call(id("a")), id("b"))), un(js_ast.UnOpPostDec, idx(nw(id("a")), id("b"))),
		bin(js_ast.BinOpAssign, dot(call(id("a")), "b"), nw(id("c"))), bin(js_ast.BinOpAssign, dot(nw(id("a")), "b"), call(id("c"))),
		cond(nw(id("a")), nw(id("b")), nw(id("c"))), cond(call(id("a")), call(id("b")), call(id("c"))), idx(id("a"), nw(id("b"))), call(id("a"), nw(id("b")), nw(id("c"))))
	// negative numeric literals (printed through printNumber, not through EUnary)
	for _, n := range []string{"0", "1", "12", "999", "1234"} {
		var v float64
		fmt.Sscan(n, &v)
		neg := &xexpr{k: xNum, s: n, value: v, neg: true}
		pos := &xexpr{k: xNum, s: n, value: v}
		out = append(out, neg, dot(neg, "e"), idx(neg, id("a")), call(neg), nw(neg), call(id("f"), neg, neg), nw(id("f"), neg), cond(neg, neg, neg),
			bin(js_ast.BinOpPow, neg, id("a")), bin(js_ast.BinOpPow, pos, id("a")), bin(js_ast.BinOpPow, id("a"), neg), bin(js_ast.BinOpPow, neg, neg), bin(js_ast.BinOpPow, dot(neg, "e"), neg),
			bin(js_ast.BinOpSub, id("a"), neg), bin(js_ast.BinOpSub, neg, neg), bin(js_ast.BinOpAdd, id("a"), neg), bin(js_ast.BinOpSubAssign, id("a"), neg), bin(js_ast.BinOpComma, neg, neg),
			bin(js_ast.BinOpIn, neg, id("a")), bin(js_ast.BinOpIn, id("a"), neg), bin(js_ast.BinOpLt, id("a"), un(js_ast.UnOpNot, neg)), bin(js_ast.BinOpGt, un(js_ast.UnOpPostDec, id("a")), neg),
			un(js_ast.UnOpPreDec, dot(neg, "e")), un(js_ast.UnOpPostInc, idx(neg, id("a"))))
		for _, p := range pre {
			if p != js_ast.UnOpPreDec && p != js_ast.UnOpPreInc {
				out = append(out, un(p, neg), un(p, un(js_ast.UnOpNeg, neg)))
			}
		}
	}
	for i := range specialNums {
		pos := &specialNums[i]
		ng := *pos
		ng.neg = true
		neg := &ng
		out = append(out, cond(id("a"), pos, id("b")), cond(id("a"), pos, pos), cond(dot(id("a"), "b"), dot(pos, "e"), neg), cond(un(js_ast.UnOpPostInc, id("a")), pos, pos), bin(js_ast.BinOpNullishCoalescing, id("a"), pos),
			bin(js_ast.BinOpAssign, id("a"), pos), bin(js_ast.BinOpLt, id("a"), pos), bin(js_ast.BinOpGt, un(js_ast.UnOpPostDec, id("a")), pos), bin(js_ast.BinOpAdd, pos, pos), bin(js_ast.BinOpInstanceof, id("a"), pos), un(js_ast.UnOpVoid, pos), un(opAwait, pos), un(opYield, pos),
			call(id("f"), pos, pos), nw(id("f"), pos), idx(id("a"), pos))
		out = append(out, pos, dot(pos, "e"), dot(pos, "x1"), dot(dot(pos, "e"), "e"), idx(pos, pos), call(pos, pos), nw(pos, pos), call(dot(pos, "toString")), cond(pos, pos, pos),
			dot(neg, "e"), bin(js_ast.BinOpPow, neg, pos), bin(js_ast.BinOpSub, pos, neg), bin(js_ast.BinOpIn, pos, id("a")), bin(js_ast.BinOpIn, id("a"), pos), bin(js_ast.BinOpInstanceof, dot(pos, "e"), pos),
			un(js_ast.UnOpTypeof, pos), un(js_ast.UnOpNeg, pos), un(js_ast.UnOpPreDec, dot(pos, "e")), un(js_ast.UnOpPostInc, dot(pos, "e")), bin(js_ast.BinOpAdd, pos, dot(pos, "e")),
			bin(js_ast.BinOpDiv, pos, &xexpr{k: xRe, s: "x", f: ""}), bin(js_ast.BinOpComma, pos, pos), bin(js_ast.BinOpAssign, dot(pos, "e"), pos))
	}
	for _, p := range pre {
		out = append(out, call(id("x"), un(p, id("a"))), nw(id("x"), un(p, id("a"))), un(p, dot(call(id("a")), "b")), un(p, dot(nw(id("a")), "b")))
		if p != js_ast.UnOpPreDec && p != js_ast.UnOpPreInc {
			out = append(out, un(p, call(id("a"))), un(p, nw(id("a"))), nw(un(p, id("a"))), call(un(p, id("a"))))
		}
	}
	for _, b := range bins {
		out = append(out, bin(b, id("x"), nw(id("a"))), bin(b, id("x"), call(id("a"))), call(id("f"), bin(b, id("x"), id("y"))), nw(id("f"), bin(b, id("x"), id("y")), id("z")))
		if b < js_ast.BinOpAssign {
			out = append(out, bin(b, nw(id("a")), id("x")), bin(b, call(id("a")), id("x")), bin(b, nw(id("a")), nw(id("b"))))
		}
	}
	// the identifier "let" (fix ac301ad): an index access on it in the leftmost position of an expression statement is printed "(let)[...]"
	let := id("let")
	lx := idx(let, id("x"))
	out = append(out, let, lx, dot(let, "x"), call(let), call(let, lx), nw(let), idx(lx, id("y")), idx(dot(let, "a"), id("b")), idx(call(let), id("b")), idx(let, lx), dot(lx, "y"), call(lx), call(lx, lx), nw(lx), nw(lx, lx),
		un(js_ast.UnOpPostInc, lx), un(js_ast.UnOpPostDec, dot(lx, "y")), un(js_ast.UnOpPreInc, lx), un(js_ast.UnOpNot, lx), un(js_ast.UnOpTypeof, lx), un(js_ast.UnOpNeg, lx),
		cond(lx, lx, lx), cond(cond(lx, id("a"), id("b")), id("c"), id("d")), bin(js_ast.BinOpComma, lx, lx), bin(js_ast.BinOpComma, bin(js_ast.BinOpComma, lx, id("a")), lx), bin(js_ast.BinOpComma, lx, bin(js_ast.BinOpComma, lx, lx)),
		bin(js_ast.BinOpAssign, lx, lx), bin(js_ast.BinOpAddAssign, lx, id("a")), bin(js_ast.BinOpAssign, let, id("a")), bin(js_ast.BinOpAssign, dot(let, "x"), lx), bin(js_ast.BinOpIn, lx, lx), bin(js_ast.BinOpIn, let, id("a")), bin(js_ast.BinOpInstanceof, let, lx),
		bin(js_ast.BinOpPow, lx, lx), bin(js_ast.BinOpPow, un(js_ast.UnOpNeg, lx), id("a")), bin(js_ast.BinOpAdd, bin(js_ast.BinOpMul, lx, id("a")), id("b")), bin(js_ast.BinOpMul, bin(js_ast.BinOpAdd, lx, id("a")), id("b")),
		bin(js_ast.BinOpNullishCoalescing, bin(js_ast.BinOpLogicalOr, lx, id("a")), id("b")), idx(bin(js_ast.BinOpAdd, lx, id("a")), id("b")), dot(cond(lx, id("a"), id("b")), "e"), call(bin(js_ast.BinOpComma, lx, id("a"))))
	for _, b := range bins {
		out = append(out, bin(b, lx, id("a")))
	}
	// yield (with operand): an AssignmentExpression; its operand is printed at LYield and inherits forbidIn
	yl := func(a *xexpr) *xexpr { return un(opYield, a) }
	ainb := bin(js_ast.BinOpIn, id("a"), id("b"))
	out = append(out, yl(id("a")), yl(yl(id("a"))), yl(ainb), yl(bin(js_ast.BinOpAssign, id("a"), yl(ainb))), yl(cond(ainb, ainb, ainb)), yl(bin(js_ast.BinOpComma, id("a"), id("b"))), bin(js_ast.BinOpComma, yl(id("a")), yl(id("b"))),
		bin(js_ast.BinOpAssign, id("a"), yl(id("b"))), bin(js_ast.BinOpAddAssign, id("a"), yl(ainb)), cond(yl(id("a")), yl(id("b")), yl(id("c"))), cond(id("a"), yl(ainb), yl(ainb)), call(id("f"), yl(id("a")), yl(id("b"))), call(yl(id("a"))), nw(yl(id("a"))), nw(id("f"), yl(id("a"))),
		idx(id("a"), yl(id("b"))), idx(yl(id("a")), id("b")), dot(yl(id("a")), "e"), un(js_ast.UnOpNot, yl(id("a"))), un(js_ast.UnOpTypeof, yl(id("a"))), yl(un(js_ast.UnOpNot, id("a"))), yl(un(js_ast.UnOpPostInc, id("a"))), yl(un(js_ast.UnOpPreDec, id("a"))),
		yl(&xexpr{k: xRe, s: "x", f: "g"}), yl(&xexpr{k: xNum, s: "1", value: 1}), yl(&xexpr{k: xNum, s: "1", value: 1, neg: true}), yl(call(id("a"))), yl(nw(id("a"))), yl(un(opAwait, id("a"))), un(opAwait, yl(id("a"))),
		bin(js_ast.BinOpPow, yl(id("a")), id("b")), bin(js_ast.BinOpPow, id("a"), yl(id("b"))), bin(js_ast.BinOpNullishCoalescing, yl(id("a")), id("b")), bin(js_ast.BinOpIn, yl(id("a")), id("b")), bin(js_ast.BinOpIn, id("a"), yl(id("b"))))
	for _, b := range bins {
		out = append(out, bin(b, id("x"), yl(id("a"))))
		if b < js_ast.BinOpAssign {
			out = append(out, bin(b, yl(id("a")), id("x")))
		}
	}
	// "in" in every position the forbidIn flag reaches or stops at (these are also printed as for-loop initialisers)
	ain := bin(js_ast.BinOpIn, id("a"), id("b"))
	out = append(out, ain, bin(js_ast.BinOpIn, ain, id("c")), bin(js_ast.BinOpIn, id("c"), ain), un(js_ast.UnOpNot, ain), un(js_ast.UnOpTypeof, ain),
		cond(ain, ain, ain), cond(id("x"), ain, cond(id("y"), ain, ain)), cond(cond(ain, ain, ain), id("x"), id("y")), bin(js_ast.BinOpAdd, cond(ain, ain, ain), id("x")),
		call(ain), call(id("f"), ain, ain), nw(ain), nw(id("f"), ain), idx(ain, ain), idx(id("x"), ain), dot(ain, "e"), un(js_ast.UnOpPostInc, dot(ain, "e")),
		bin(js_ast.BinOpComma, ain, ain), bin(js_ast.BinOpComma, bin(js_ast.BinOpComma, ain, ain), ain), bin(js_ast.BinOpComma, id("x"), bin(js_ast.BinOpComma, ain, ain)),
		bin(js_ast.BinOpAssign, id("x"), bin(js_ast.BinOpAssign, id("y"), ain)), bin(js_ast.BinOpAssign, idx(id("x"), ain), ain), bin(js_ast.BinOpAssign, id("x"), cond(ain, ain, ain)),
		bin(js_ast.BinOpInstanceof, ain, ain), bin(js_ast.BinOpLt, ain, ain), bin(js_ast.BinOpIn, bin(js_ast.BinOpAdd, id("a"), id("b")), bin(js_ast.BinOpAdd, id("c"), id("d"))),
		bin(js_ast.BinOpIn, un(js_ast.UnOpNot, id("a")), un(js_ast.UnOpNeg, id("b"))), bin(js_ast.BinOpIn, &xexpr{k: xRe, s: "x", f: "g"}, &xexpr{k: xNum, s: "1", value: 1}),
		bin(js_ast.BinOpLogicalOr, bin(js_ast.BinOpLogicalAnd, ain, ain), bin(js_ast.BinOpNullishCoalescing, ain, id("x"))))
	for _, b := range bins {
		out = append(out, bin(b, id("x"), ain))
		if b < js_ast.BinOpAssign {
			out = append(out, bin(b, ain, id("x")))
		}
	}
	out = append(out, un(js_ast.UnOpTypeof, &xexpr{k: xRe, s: "x", f: ""}), un(js_ast.UnOpVoid, un(js_ast.UnOpTypeof, id("a"))), un(js_ast.UnOpTypeof, un(js_ast.UnOpNeg, id("a"))))
	return out
}

// ---------------------------------------------------------------------------

func realLexesAsIdentifier(word string) bool {
	log := logger.NewDeferLog(logger.DeferLogNoVerboseOrDebug, nil)
	lx := js_lexer.NewLexer(log, logger.Source{Contents: word}, config.TSOptions{})
	return lx.Token == js_lexer.TIdentifier
}

func runC13(seed uint64, n int, tier string, outDir string) []*Stats {
	r := NewRng(seed)
	cf := NewCoqFile("From V Require Import Common.Base C13.KwSpec C13.Token C13.LexSpec C13.ParseSpec C13.Harness.")
	st := NewStats("c13", seed)

	// --- operator table
	var items []string
	for code, e := range js_ast.OpTable {
		op := js_ast.OpCode(code)
		items = append(items, fmt.Sprintf("(%d,%s,%d,%s,%s,%s,%s)", code, CBytes([]byte(e.Text)), int(e.Level), CBool(e.IsKeyword), CBool(op.IsPrefix()), CBool(op.IsLeftAssociative()), CBool(op.IsRightAssociative())))
		st.Note("optab", e.Text+fmt.Sprint(code), true)
	}
	cf.AddCases("optab_cases", "Z * bytes * Z * bool * bool * bool * bool", "check_optab", items)

	// --- keyword tables at run time and the real lexer
	items = nil
	words := map[string]bool{}
	for w := range js_lexer.Keywords {
		words[w] = true
	}
	for w := range js_lexer.StrictModeReservedWords {
		words[w] = true
	}
	for _, w := range strings.Fields("await break case catch class const continue debugger default delete do else enum export extends false finally for function if import in instanceof new null return super switch this throw true try typeof var void while with yield implements interface let package private protected public static async of get set as from type target meta accessor using arguments eval undefined NaN Infinity abstract boolean byte char double final float goto int long native short synchronized throws transient volatile constructor prototype x foo Break IN typeofx in1 nul") {
		words[w] = true
	}
	var wl []string
	for w := range words {
		wl = append(wl, w)
	}
	sortStrings(wl)
	for _, w := range wl {
		_, iskw := js_lexer.Keywords[w]
		items = append(items, fmt.Sprintf("(%s,%s,%s,%s)", CBytes([]byte(w)), CBool(iskw), CBool(js_lexer.StrictModeReservedWords[w]), CBool(realLexesAsIdentifier(w))))
		st.Note("keyword", w, iskw || js_lexer.StrictModeReservedWords[w])
	}
	cf.AddCases("kw_cases", "bytes * bool * bool * bool", "check_kw", items)

	// --- printer token gluing on hand-built trees
	var trees []*xexpr
	trees = append(trees, gluingGrid()...)
	nTrees := n
	for i := 0; i < nTrees; i++ {
		leavesIdOnly = i%3 == 0
		trees = append(trees, genTree(r, r.Range(1, 4)))
	}
	leavesIdOnly = false
	items = nil
	var printed []printedTree
	nGrid := len(gluingGrid())
	for i, e := range trees {
		modes := []bool{i%2 == 0}
		if i < nGrid {
			modes = []bool{true, false} // every grid tree in both whitespace modes
		}
		// with the forbidIn flag (as the initialiser of a for loop): every tree with an "in" operator, every fifth other tree
		if containsIn(e) || i%5 == 0 {
			for _, m := range modes {
				full, init := printTreeForInit(e, m)
				items = append(items, fmt.Sprintf("(%s,true,true,%s,%s)", CBool(m), e.coq(m), CBytes([]byte(init))))
				st.Note("print-tree-forbid-in", init+fmt.Sprint(m), containsIn(e))
				other := ""
				if idOnly(e) {
					other, _ = printTreeForInit(e, !m)
					other = strings.TrimSuffix(strings.TrimSuffix(other, "\n"), ";")
				}
				if !containsAwait(e) {
					printed = append(printed, printedTree{full, m, other, i < nGrid})
				}
			}
		}
		for _, m := range modes {
			out := printTree(e, m)
			items = append(items, fmt.Sprintf("(%s,false,true,%s,%s)", CBool(m), e.coq(m), CBytes([]byte(out))))
			st.Note("print-tree", out+fmt.Sprint(m), e.k == xUn || e.k == xBin)
			other := ""
			if idOnly(e) {
				other = printTree(e, !m)
			}
			if !containsAwait(e) {
				printed = append(printed, printedTree{out, m, other, i < nGrid})
			}
			if i%97 == 0 {
				st.Sample(map[string]interface{}{"tree_printed": out, "minify_whitespace": m})
			}
		}
	}
	cf.AddCases("print_cases", "bool * bool * bool * expr * bytes", "check_print", items)
	cf.AddCases("relex_cases", "bool * bool * bool * expr * bytes", "check_relex", items)
	// the specification parser is slow under vm_compute: every third case (both modes of a grid tree alternate)
	var third []string
	for i, it := range items {
		if i%3 == 0 {
			third = append(third, it)
		}
	}
	cf.AddCases("reparse_cases", "bool * bool * bool * expr * bytes", "check_reparse", third)

	// --- glue streams through api.Transform
	glue(r, st, n, tier, printed)

	st.Finish("seeded generator (splitmix64 from VERIF_SEED): js_ast.OpTable rows; keyword candidates (ECMA-262 reserved words, strict/future/contextual words, near misses) against the run-time maps and the real lexer; expression trees (exhaustive operator-adjacency grid + random trees over all 53 operators, identifiers incl. contextual keywords, integers, regexps, member/index access, conditionals, calls and new-expressions with argument lists) printed by js_printer.Print in both whitespace modes, as expression statements and (forbidIn) as for-loop initialisers; glue: trees, jsgen programs, all string literals of js_parser_test.go/js_printer_test.go, rare-production grammar generator and token-level mutations through api.Transform under format x minify-whitespace x charset x JSX-preserve, checked by node (vm.Script / vm.SourceTextModule) and by a second Transform. distinct_nontrivial = distinct (kind,input) with at least one operator / accepted program")
	if err := os.WriteFile(filepath.Join(outDir, "c13_cases.v"), []byte(cf.String()), 0o644); err != nil {
		panic(err)
	}
	return []*Stats{st}
}

type printedTree struct {
	text  string
	mw    bool
	other string // the same tree printed in the other white-space mode ("" when the tree has constant leaves that esbuild folds)
	grid  bool   // member of the exhaustive operator-adjacency grid
}

// only plain identifiers at the leaves: nothing esbuild's parser could fold or drop
func idOnly(e *xexpr) bool {
	switch e.k {
	case xId:
		return e.s != "this" && e.s != "null" && e.s != "true" && e.s != "false"
	case xNum, xRe:
		return false
	case xDot:
		return idOnly(e.a)
	case xCond:
		return idOnly(e.a) && idOnly(e.b) && idOnly(e.c)
	case xIndex:
		return idOnly(e.a) && idOnly(e.b)
	case xCall, xNew:
		for _, a := range e.args {
			if !idOnly(a) {
				return false
			}
		}
		return idOnly(e.a)
	case xUn:
		// typeof/void have a known type, which lets the parser simplify "??", "!" and "||" around them
		return e.op != js_ast.UnOpTypeof && e.op != js_ast.UnOpVoid && idOnly(e.a)
	default:
		return e.op != js_ast.BinOpNullishCoalescing && idOnly(e.a) && idOnly(e.b)
	}
}

func sortStrings(a []string) {
	for i := 1; i < len(a); i++ {
		for j := i; j > 0 && a[j] < a[j-1]; j-- {
			a[j], a[j-1] = a[j-1], a[j]
		}
	}
}
