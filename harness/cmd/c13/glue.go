package main

import (
	. "github.com/evanw/esbuild/verifharness/hlib"
)

func glue(r *Rng, st *Stats, n int, tier string, printed []printedTree) {}
