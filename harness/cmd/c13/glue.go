package main

// Glue streams of C13 through api.Transform with node as the independent parser.

import (
	"bytes"
	"encoding/json"
	"fmt"
	"go/ast"
	"go/parser"
	"go/token"
	"os"
	"os/exec"
	"path/filepath"
	"regexp"
	"runtime"
	"strconv"
	"strings"
	"sync"

	"github.com/evanw/esbuild/pkg/api"
	. "github.com/evanw/esbuild/verifharness/hlib"
)

// ---------------------------------------------------------------------------
// node: syntax check only (compile, never run), script and module goals

const nodeSyntaxRunner = `
const vm = require("vm"), fs = require("fs");
const input = JSON.parse(fs.readFileSync(process.argv[2], "utf8"));
const out = [];
for (const it of input) {
  let ok = true, err = "";
  try {
    if (it.goal === "module") new vm.SourceTextModule(it.code);
    else new vm.Script(it.code);
  } catch (e) {
    ok = false; err = String(e && e.message);
    if (!(e instanceof SyntaxError)) err = "NON-SYNTAX:" + err;
  }
  out.push({ ok, err });
}
fs.writeFileSync(process.argv[3], JSON.stringify(out));
`

type nodeItem struct {
	Code string `json:"code"`
	Goal string `json:"goal"`
}
type nodeVerdict struct {
	Ok    bool   `json:"ok"`
	Err   string `json:"err"`
	Crash bool   `json:"-"` // node itself aborted on this item: no verdict
}

// nodeSyntax asks node for a verdict on every item.  Some inputs make node itself abort
// (an assertion in node's error decoration, node_errors.cc GetErrorSource, seen with
// generated programs): the batch is then bisected until the offending item is isolated,
// which gets the verdict Crash (no oracle available; the case is skipped and counted).
func nodeSyntax(items []nodeItem) ([]nodeVerdict, error) {
	if len(items) == 0 {
		return nil, nil
	}
	res, err := nodeSyntaxOnce(items)
	if err == nil {
		return res, nil
	}
	if _, isExit := err.(*nodeCrash); !isExit {
		return nil, err
	}
	if len(items) == 1 {
		return []nodeVerdict{{Ok: false, Err: "NODE-CRASH", Crash: true}}, nil
	}
	h := len(items) / 2
	a, err := nodeSyntax(items[:h])
	if err != nil {
		return nil, err
	}
	b, err := nodeSyntax(items[h:])
	if err != nil {
		return nil, err
	}
	return append(a, b...), nil
}

type nodeCrash struct{ msg string }

func (e *nodeCrash) Error() string { return e.msg }

func nodeSyntaxOnce(items []nodeItem) ([]nodeVerdict, error) {
	dir, err := os.MkdirTemp("", "verif-c13-")
	if err != nil {
		return nil, err
	}
	defer os.RemoveAll(dir)
	data, _ := json.Marshal(items)
	inp, outp, run := filepath.Join(dir, "in.json"), filepath.Join(dir, "out.json"), filepath.Join(dir, "run.js")
	if err := os.WriteFile(inp, data, 0o644); err != nil {
		return nil, err
	}
	if err := os.WriteFile(run, []byte(nodeSyntaxRunner), 0o644); err != nil {
		return nil, err
	}
	cmd := exec.Command("node", "--experimental-vm-modules", "--no-warnings", "--stack-size=4000", run, inp, outp)
	var stderr bytes.Buffer
	cmd.Stderr = &stderr
	if err := cmd.Run(); err != nil {
		if _, ok := err.(*exec.ExitError); ok {
			return nil, &nodeCrash{fmt.Sprintf("node failed: %v: %s", err, clip(stderr.String(), 400))}
		}
		return nil, fmt.Errorf("node could not be started: %v", err)
	}
	raw, err := os.ReadFile(outp)
	if err != nil {
		return nil, err
	}
	var res []nodeVerdict
	if err := json.Unmarshal(raw, &res); err != nil {
		return nil, err
	}
	if len(res) != len(items) {
		return nil, fmt.Errorf("node returned %d verdicts for %d items", len(res), len(items))
	}
	return res, nil
}

// ---------------------------------------------------------------------------
// the repository's own parser/printer test inputs

type corpusItem struct {
	src      string
	jsx      bool
	fromErr  bool // argument of an expectParseError* call
	testFile string
}

func stringArg(e ast.Expr) (string, bool) {
	switch x := e.(type) {
	case *ast.BasicLit:
		if x.Kind == token.STRING {
			s, err := strconv.Unquote(x.Value)
			return s, err == nil
		}
	case *ast.BinaryExpr:
		if x.Op == token.ADD {
			a, ok1 := stringArg(x.X)
			b, ok2 := stringArg(x.Y)
			return a + b, ok1 && ok2
		}
	case *ast.ParenExpr:
		return stringArg(x.X)
	}
	return "", false
}

func extractCorpus(repo string) ([]corpusItem, error) {
	var out []corpusItem
	seen := map[string]bool{}
	for _, rel := range []string{"internal/js_parser/js_parser_test.go", "internal/js_printer/js_printer_test.go"} {
		fset := token.NewFileSet()
		f, err := parser.ParseFile(fset, filepath.Join(repo, rel), nil, 0)
		if err != nil {
			return nil, err
		}
		ast.Inspect(f, func(n ast.Node) bool {
			call, ok := n.(*ast.CallExpr)
			if !ok {
				return true
			}
			id, ok := call.Fun.(*ast.Ident)
			if !ok || !strings.HasPrefix(id.Name, "expect") {
				return true
			}
			for _, a := range call.Args {
				if s, ok := stringArg(a); ok {
					jsx := strings.Contains(id.Name, "JSX")
					key := fmt.Sprint(jsx) + s
					if !seen[key] && len(s) > 0 && len(s) < 4000 {
						seen[key] = true
						out = append(out, corpusItem{src: s, jsx: jsx, fromErr: strings.Contains(id.Name, "ParseError"), testFile: filepath.Base(rel)})
					}
					break // the first string argument is the input
				}
			}
			return true
		})
	}
	if len(out) < 1000 {
		return nil, fmt.Errorf("only %d test inputs extracted (test helpers renamed?)", len(out))
	}
	return out, nil
}

// ---------------------------------------------------------------------------

type variant struct {
	mw      bool
	utf8    bool
	format  api.Format
	jsx     bool
	comment string
}

func (v variant) String() string {
	f := map[api.Format]string{api.FormatDefault: "default", api.FormatESModule: "esm", api.FormatCommonJS: "cjs", api.FormatIIFE: "iife"}[v.format]
	return fmt.Sprintf("format=%s minify-whitespace=%v charset=%s jsx-preserve=%v", f, v.mw, map[bool]string{true: "utf8", false: "ascii"}[v.utf8], v.jsx)
}

func (v variant) opts(second bool) api.TransformOptions {
	o := api.TransformOptions{Loader: api.LoaderJS, LogLevel: api.LogLevelSilent, MinifyWhitespace: v.mw, LegalComments: api.LegalCommentsNone}
	if v.utf8 {
		o.Charset = api.CharsetUTF8
	}
	if v.jsx {
		o.Loader = api.LoaderJSX
		o.JSX = api.JSXPreserve
	}
	if !second {
		o.Format = v.format
	}
	return o
}

type glueCase struct {
	kind    string
	src     string
	v       variant
	out1    string
	err1    string
	mark1   string // source text underlined by esbuild's first error
	other   string // trees: the same tree printed in the other white-space mode
	out2    string
	err2    string
	srcS    int // index of node verdict for src as script (-1 = not asked)
	srcM    int
	outS    int
	outM    int
	fromErr bool
}

func transform(src string, o api.TransformOptions) (string, string) {
	out, e, _ := transformLoc(src, o)
	return out, e
}

// also returns the source text esbuild underlined for its first error
func transformLoc(src string, o api.TransformOptions) (string, string, string) {
	res := api.Transform(src, o)
	if len(res.Errors) > 0 {
		m := res.Errors[0]
		marked := ""
		if l := m.Location; l != nil {
			// absolute byte offset of the location, then the expression that starts there
			off := 0
			for line := 1; line < l.Line && off < len(src); off++ {
				if src[off] == '\n' {
					line++
				}
			}
			off += l.Column
			if off <= len(src) {
				marked = exprPrefixAt(src[off:])
			}
		}
		return "", m.Text, marked
	}
	return string(res.Code), "", ""
}

// runs f(i) for i in [0,n) on all cores; results are stored by index, so the
// outcome does not depend on scheduling
func parallel(n int, f func(i int)) {
	var wg sync.WaitGroup
	workers := runtime.NumCPU()
	if workers > 16 {
		workers = 16
	}
	ch := make(chan int, 256)
	for w := 0; w < workers; w++ {
		wg.Add(1)
		go func() {
			defer wg.Done()
			for i := range ch {
				f(i)
			}
		}()
	}
	for i := 0; i < n; i++ {
		ch <- i
	}
	close(ch)
	wg.Wait()
}

// deliberate esbuild restrictions and differences that are not violations of
// the property (each was looked at by hand on the pinned tree; see the report)
func acceptanceExcluded(c *glueCase, goal string) string {
	e := c.err1
	switch {
	case strings.Contains(e, "Top-level await is currently not supported"):
		return "top-level await with cjs/iife output (documented esbuild restriction)"
	case strings.Contains(e, "With statements cannot be used") || strings.Contains(e, "with an ECMAScript module"):
		return "sloppy-only construct in ESM output"
	}
	return ""
}

func glue(r *Rng, st *Stats, n int, tier string, printed []printedTree) {
	repo := os.Getenv("VERIF_REPO")
	if repo == "" {
		repo = "/repo"
	}
	corpus, err := extractCorpus(repo)
	if err != nil {
		st.Fail("corpus-extraction", err.Error(), nil, nil)
		return
	}
	st.Histogram["corpus-literals"] = len(corpus)
	replayKnown(st)

	formats := []api.Format{api.FormatDefault, api.FormatESModule, api.FormatCommonJS, api.FormatIIFE}
	randVariant := func(jsx bool) variant {
		return variant{mw: r.Bool(), utf8: r.Chance(30), format: formats[r.Intn(4)], jsx: jsx}
	}
	var cases []*glueCase
	add := func(kind, src string, v variant, fromErr bool) {
		cases = append(cases, &glueCase{kind: kind, src: src, v: v, srcS: -1, srcM: -1, outS: -1, outM: -1, fromErr: fromErr})
	}

	// (1) printed trees of the modelled fragment
	for i, p := range printed {
		if tier == "quick" && !p.grid && i%4 != 0 {
			continue
		}
		add("tree", p.text, variant{mw: p.mw}, false)
		cases[len(cases)-1].other = p.other
	}
	// (2) jsgen programs
	nj := n / 3
	for i := 0; i < nj; i++ {
		g := NewJSGen(r, AllJSFeatures())
		src := g.Program(r.Range(2, 5))
		add("jsgen", src, variant{mw: r.Bool(), utf8: r.Chance(30), format: []api.Format{api.FormatDefault, api.FormatCommonJS, api.FormatIIFE}[r.Intn(3)]}, false)
	}
	// (3) the repository's own test inputs: default options, minify-whitespace, and one random variant
	stride := 1
	if tier == "quick" {
		stride = 4
	}
	off := r.Intn(stride)
	for i, c := range corpus {
		if (i+off)%stride != 0 {
			continue
		}
		if tier != "quick" || i%2 == 0 {
			add("corpus", c.src, variant{jsx: c.jsx}, c.fromErr)
		}
		if tier != "quick" || i%2 == 1 {
			add("corpus", c.src, variant{mw: true, jsx: c.jsx}, c.fromErr)
		}
		add("corpus", c.src, randVariant(c.jsx), c.fromErr)
	}
	// (4) grammar-based generation biased to rare productions
	ng := n * 4
	for i := 0; i < ng; i++ {
		src := genRare(r)
		add("rare", src, variant{}, false)
		if r.Chance(40) {
			add("rare", src, randVariant(false), false)
		}
	}
	// (4b) every reserved, strict-reserved and contextual word in binding, label, shorthand,
	// property and strict-mode positions (exhaustive: ties the keyword tables to behaviour)
	for _, w := range allWords {
		for _, t := range []string{"var %s = 1", "%s: 1", "function %s(){}", "x = {%s}", "'use strict'; var %s", "x.%s", "'use strict'; %s: 1", "let %s", "x = {%s: 1, %s(){}}"} {
			add("word", strings.ReplaceAll(t, "%s", w), variant{}, false)
		}
	}
	// (4c) a fixed list of ASI and regexp-vs-division boundaries (node decides which are valid)
	for _, src := range boundaryCorpus {
		add("boundary", src, variant{}, false)
		add("boundary", src, variant{mw: true}, false)
		add("boundary", "function f(){"+src+"}", variant{mw: r.Bool()}, false)
		add("boundary", "function* f(){"+src+"}", variant{mw: r.Bool()}, false)
	}
	// (4d) must-pass inputs of repaired findings
	for _, src := range mustPassCorpus {
		add("mustpass", src, variant{mw: true}, false)
		add("mustpass", src, variant{}, false)
		add("mustpass", src, variant{mw: true, format: api.FormatESModule}, false)
	}
	// (5) mutations of test inputs and of generated programs
	nm := n * 3
	for i := 0; i < nm; i++ {
		var base string
		if r.Chance(70) {
			c := corpus[r.Intn(len(corpus))]
			if c.jsx {
				continue
			}
			base = c.src
		} else {
			base = genRare(r)
		}
		add("mutant", mutateJS(r, base), variant{mw: r.Bool()}, true)
	}

	// first transform
	parallel(len(cases), func(i int) {
		c := cases[i]
		c.out1, c.err1, c.mark1 = transformLoc(c.src, c.v.opts(false))
		if c.err1 == "" {
			c.out2, c.err2 = transform(c.out1, c.v.opts(true))
		}
	})

	// node verdicts (one batch): every source in both goals, every output in the relevant goals
	var items []nodeItem
	ask := func(code, goal string) int {
		items = append(items, nodeItem{code, goal})
		return len(items) - 1
	}
	srcIdx := map[string][2]int{}
	for _, c := range cases {
		if c.v.jsx {
			continue
		}
		if p, ok := srcIdx[c.src]; ok {
			c.srcS, c.srcM = p[0], p[1]
		} else {
			c.srcS, c.srcM = ask(c.src, "script"), ask(c.src, "module")
			srcIdx[c.src] = [2]int{c.srcS, c.srcM}
		}
		if c.err1 == "" {
			switch c.v.format {
			case api.FormatDefault:
				c.outS, c.outM = ask(c.out1, "script"), ask(c.out1, "module")
			case api.FormatESModule:
				c.outM = ask(c.out1, "module")
			default:
				c.outS = ask(c.out1, "script")
			}
		}
	}
	verdicts, err := nodeSyntax(items)
	if err != nil {
		st.Fail("node-oracle-unavailable", err.Error(), nil, nil)
		return
	}
	ok := func(i int) bool { return i >= 0 && verdicts[i].Ok }
	crashed := func(i int) bool { return i >= 0 && verdicts[i].Crash }
	msg := func(i int) string {
		if i < 0 {
			return ""
		}
		return verdicts[i].Err
	}

	type pendingWrap struct {
		c    *glueCase
		goal string
	}
	var pend []pendingWrap

	for _, c := range cases {
		desc := map[string]string{"input": c.src, "options": c.v.String(), "kind": c.kind}
		if crashed(c.srcS) || crashed(c.srcM) || crashed(c.outS) || crashed(c.outM) {
			st.Histogram["skipped: node aborted on this input (no oracle verdict)"]++
			continue
		}
		validS, validM := ok(c.srcS), ok(c.srcM)
		st.Note("glue-"+c.kind, c.v.String()+c.src, c.err1 == "")

		// --- acceptance: a program node accepts must be accepted
		if c.err1 != "" && c.kind == "tree" {
			// the text was printed by esbuild's own printer from a valid tree: it must be readable
			failC(st, "output-not-reparsable", map[string]string{"input": c.src, "options": c.v.String(), "kind": c.kind, "out1": c.src}, c.err1, "esbuild accepts what its printer printed for a valid expression tree")
			continue
		}
		if c.err1 != "" {
			st.Histogram["esbuild-rejected-"+c.kind]++
			if !c.v.jsx {
				var goal string
				switch c.v.format {
				case api.FormatESModule:
					if validM {
						goal = "module"
					}
				default:
					if validS {
						goal = "script"
					} else if validM {
						goal = "module"
					}
				}
				if goal != "" {
					if why := knownRejection(c, goal); why != "" {
						st.Histogram["excluded: "+why]++
					} else if goal == "script" && (awaitish.MatchString(c.src) || strings.Contains(c.err1, "await")) {
						pend = append(pend, pendingWrap{c, goal})
					} else {
						desc["node_goal"] = goal
						failC(st, "valid-program-rejected", desc, c.err1, "accepted (node accepts it as "+goal+")")
					}
				}
			}
			continue
		}

		// --- a printed tree must read back as the tree that was printed: the second pass,
		// printed with the other white-space mode, equals the direct print of the tree in that mode
		if c.kind == "tree" && c.other != "" {
			v2 := c.v
			v2.mw = !c.v.mw
			back, e := transform(c.out1, v2.opts(true))
			back = strings.TrimSuffix(strings.TrimSuffix(back, "\n"), ";")
			if e != "" || back != c.other {
				failC(st, "printed-tree-reads-back-differently", map[string]string{"input": c.src, "options": c.v.String(), "kind": c.kind, "out1": c.out1}, back+e, c.other)
			}
		}

		// --- fixed point (comments ignored, as the property says)
		if c.v.format != api.FormatIIFE && (c.err2 != "" || c.out2 != c.out1) {
			d := map[string]string{"input": c.src, "options": c.v.String(), "kind": c.kind, "out1": c.out1}
			if why := knownNotFixed(c); why != "" {
				st.Histogram["excluded: "+why]++
			} else if c.err2 != "" {
				failC(st, "output-not-reparsable", d, c.err2, "second Transform accepts the first output")
			} else if stripComments(c.out1) != stripComments(c.out2) {
				failC(st, "not-a-fixed-point", d, c.out2, c.out1)
			} else {
				st.Histogram["fixed-point-up-to-comments"]++
			}
		}

		// --- validity of the output in the goal(s) of the input
		if c.v.jsx {
			continue
		}
		var failGoal, failMsg string
		switch c.v.format {
		case api.FormatDefault:
			// no kind was requested: esbuild decides (e.g. a top-level "await x" makes the
			// file a module); the output must be valid in a goal in which the input is
			if (validS || validM) && !((validS && ok(c.outS)) || (validM && ok(c.outM))) {
				if validS {
					failGoal, failMsg = "script", msg(c.outS)
				} else {
					failGoal, failMsg = "module", msg(c.outM)
				}
			}
		case api.FormatESModule:
			if validM && !ok(c.outM) {
				failGoal, failMsg = "module", msg(c.outM)
			}
		default:
			if (validS || validM) && !ok(c.outS) {
				failGoal, failMsg = "script", msg(c.outS)
			}
		}
		if failGoal != "" {
			if why := knownInvalidOutput(c, failGoal, failMsg); why != "" {
				st.Histogram["excluded: "+why]++
			} else {
				d := map[string]string{"input": c.src, "options": c.v.String(), "kind": c.kind, "out1": c.out1, "goal": failGoal}
				failC(st, "invalid-output", d, failMsg, "node accepts the output as "+failGoal+" (it accepts the input)")
			}
		}
		if !validS && !validM && !ok(c.outS) && !ok(c.outM) {
			// esbuild accepted something node rejects in both goals: the output must still be valid
			if why := knownLenient(c, msg(c.srcS), msg(c.srcM), msg(c.outS)+" | "+msg(c.outM)); why != "" {
				st.Histogram["excluded: "+why]++
			} else {
				d := map[string]string{"input": c.src, "options": c.v.String(), "kind": c.kind, "out1": c.out1, "node_on_input": msg(c.srcS)}
				failC(st, "invalid-input-accepted-and-passed-through", d, "output rejected by node: "+msg(firstAsked(c)), "an error, or valid output")
			}
		}
		if len(st.Samples) < 8 && c.kind != "tree" && r.Chance(2) {
			st.Sample(map[string]interface{}{"kind": c.kind, "input": clip(c.src, 200), "options": c.v.String(), "out1": clip(c.out1, 200)})
		}
	}

	// programs that use "await" as an identifier at the top level of a file whose kind is
	// unknown: esbuild deliberately reads it as the module keyword.  Re-test the same text
	// inside a sloppy function body, where both sides must read it as an identifier.
	if len(pend) > 0 {
		var witems []nodeItem
		wrapped := make([]string, len(pend))
		for i, p := range pend {
			wrapped[i] = "function __w(){\n" + p.c.src + "\n}"
			witems = append(witems, nodeItem{wrapped[i], "script"})
		}
		wv, err := nodeSyntax(witems)
		if err != nil {
			st.Fail("node-oracle-unavailable", err.Error(), nil, nil)
			return
		}
		for i, p := range pend {
			if !wv[i].Ok {
				st.Histogram["excluded: top-level await ambiguity (not re-testable inside a function)"]++
				continue
			}
			o := p.c.v.opts(false)
			o.Format = api.FormatDefault
			_, e, mark := transformLoc(wrapped[i], o)
			if e == "" {
				st.Histogram["excluded: top-level await ambiguity (accepted inside a function body)"]++
				continue
			}
			if why := knownRejection(&glueCase{src: wrapped[i], err1: e, mark1: mark}, "script"); why != "" {
				st.Histogram["excluded: "+why]++
				continue
			}
			failC(st, "valid-program-rejected", map[string]string{"input": wrapped[i], "options": p.c.v.String(), "kind": p.c.kind, "node_goal": "script"}, e, "accepted (node accepts it as script)")
		}
	}
}

var awaitish = regexp.MustCompile(`aw(a|\\u0061|\\u\{0*61\})it`)

// removes comments and the white space around them (comments are ignored by the
// property); strings, templates and regular expressions are skipped lexically
func stripComments(s string) string {
	var sb strings.Builder
	i := 0
	lastSig := byte(0)
	for i < len(s) {
		c := s[i]
		switch {
		case c == '/' && i+1 < len(s) && s[i+1] == '/':
			for i < len(s) && s[i] != '\n' {
				i++
			}
		case c == '/' && i+1 < len(s) && s[i+1] == '*':
			j := strings.Index(s[i+2:], "*/")
			if j < 0 {
				i = len(s)
			} else {
				i += j + 4
			}
		case c == '"' || c == '\'' || c == '`':
			j := i + 1
			for j < len(s) && s[j] != c {
				if s[j] == '\\' {
					j++
				}
				j++
			}
			if j >= len(s) {
				j = len(s) - 1
			}
			sb.WriteString(s[i : j+1])
			lastSig = c
			i = j + 1
		case c == '/' && !(lastSig == ')' || lastSig == ']' || lastSig == '}' || lastSig == '"' || lastSig == '\'' || lastSig == '`' || lastSig == '_' || lastSig == '$' || (lastSig >= '0' && lastSig <= '9') || (lastSig >= 'a' && lastSig <= 'z') || (lastSig >= 'A' && lastSig <= 'Z') || lastSig >= 0x80):
			// regular expression literal
			j := i + 1
			inClass := false
			for j < len(s) && s[j] != '\n' && (inClass || s[j] != '/') {
				if s[j] == '\\' {
					j++
				} else if s[j] == '[' {
					inClass = true
				} else if s[j] == ']' {
					inClass = false
				}
				j++
			}
			if j >= len(s) {
				j = len(s) - 1
			}
			sb.WriteString(s[i : j+1])
			lastSig = '/'
			i = j + 1
		default:
			if c != ' ' && c != '\n' && c != '\t' && c != '\r' {
				lastSig = c
				sb.WriteByte(c)
			}
			i++
		}
	}
	return sb.String()
}

func firstAsked(c *glueCase) int {
	if c.outS >= 0 {
		return c.outS
	}
	return c.outM
}

func clip(s string, n int) string {
	if len(s) > n {
		return s[:n] + "..."
	}
	return s
}

// failC records a failure; with C13_DUMP=<file> every failure is also appended
// to that file as one JSON object per line (calibration aid, unlimited count)
func failC(st *Stats, what string, input, got, expect interface{}) {
	recordFail(st, what, input, got, expect)
	if p := os.Getenv("C13_DUMP"); p != "" {
		f, err := os.OpenFile(p, os.O_APPEND|os.O_CREATE|os.O_WRONLY, 0o644)
		if err == nil {
			b, _ := json.Marshal(map[string]interface{}{"what": what, "input": input, "got": got, "expect": expect})
			f.Write(append(b, '\n'))
			f.Close()
		}
	}
}

// the text of s up to the first assignment/update operator, ";" or "," at
// bracket depth 0 (strings skipped): for "Invalid assignment target" errors,
// whose location is the start of the target, this is the target expression
func exprPrefixAt(s string) string {
	depth := 0
	start := 0
	if len(s) > 0 && s[0] == '/' {
		// the target starts with a regular expression literal: skip it
		inClass := false
		j := 1
		for j < len(s) && s[j] != '\n' && (inClass || s[j] != '/') {
			if s[j] == '\\' {
				j++
			} else if s[j] == '[' {
				inClass = true
			} else if s[j] == ']' {
				inClass = false
			}
			j++
		}
		start = j + 1
	}
	for i := start; i < len(s); i++ {
		c := s[i]
		switch {
		case c == '"' || c == '\'' || c == '`':
			j := i + 1
			for j < len(s) && s[j] != c {
				if s[j] == '\\' {
					j++
				}
				j++
			}
			i = j
		case c == '(' || c == '[' || c == '{':
			depth++
		case c == ')' || c == ']' || c == '}':
			depth--
			if depth < 0 {
				return s[:i]
			}
		case depth == 0 && (c == ';' || c == ','):
			return s[:i]
		case depth == 0 && c == '=' && i > 0 && !(i+1 < len(s) && (s[i+1] == '=' || s[i+1] == '>')) && !(s[i-1] == '=' || s[i-1] == '!' || s[i-1] == '<' && i > 1 && s[i-2] != '<' || s[i-1] == '>' && i > 1 && s[i-2] != '>'):
			// strip the operator characters of a compound assignment
			j := i
			for j > 0 && strings.ContainsRune("+-*/%&|^<>?", rune(s[j-1])) {
				j--
			}
			return s[:j]
		case depth == 0 && i+1 < len(s) && (c == '+' && s[i+1] == '+' || c == '-' && s[i+1] == '-') && i > 0:
			return s[:i]
		case depth == 0 && c == '\n' && i > 0:
			// a line break followed by the start of another operand ends the target (ASI)
			j := i
			for j < len(s) && (s[j] == '\n' || s[j] == ' ' || s[j] == '\t') {
				j++
			}
			if j < len(s) && (s[j] == '_' || s[j] == '$' || (s[j] >= '0' && s[j] <= '9') || (s[j] >= 'a' && s[j] <= 'z') || (s[j] >= 'A' && s[j] <= 'Z') || s[j] >= 0x80 || s[j] == '\\') {
				return s[:i]
			}
		case depth == 0 && i > 0 && strings.ContainsRune("*/%<>&|^?:", rune(c)):
			return s[:i]
		case depth == 0 && i > 0 && (c == '+' || c == '-') && !(i+1 < len(s) && s[i+1] == c):
			return s[:i]
		case depth == 0 && (strings.HasPrefix(s[i:], " in ") || strings.HasPrefix(s[i:], " of ") || strings.HasPrefix(s[i:], "\nin ") || strings.HasPrefix(s[i:], "\nof ")):
			return s[:i]
		}
	}
	return s
}

// hlib's Stats.Fail keeps at most 20 failures; the known-finding replays alone are close to
// that, so failures are recorded directly (same structure) with a larger cap, which keeps
// room for new failing inputs after the replays.
func recordFail(st *Stats, what string, input, got, expect interface{}) {
	if len(st.Failures) < 60 {
		st.Failures = append(st.Failures, Failure{What: what, Input: input, Got: got, Expect: expect})
	}
	st.Histogram["FAIL:"+what]++
}
