package hlib

// Accessors used by the C06 harness (typed-program generator): expressions of
// the shared generator at the precedence levels where TypeScript syntax is
// inserted around them.

func (g *JSGen) ExprAssign(depth int) string  { return g.Expr(depth, lvAssign) }
func (g *JSGen) ExprShift(depth int) string   { return g.Expr(depth, lvShift) }
func (g *JSGen) ExprPrefix(depth int) string  { return g.Expr(depth, lvPrefix) }
func (g *JSGen) ExprCallee(depth int) string  { return g.Expr(depth, lvCall) }
func (g *JSGen) ExprPrimary(depth int) string { return g.Expr(depth, lvPrimary) }
