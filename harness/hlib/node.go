package hlib

// Node oracle: executes batches of closed, deterministic JavaScript programs
// in fresh vm contexts of ONE node process and returns, per program, the
// probe log (host-visible calls with unambiguously rendered arguments) and the
// class of an uncaught exception.  Used only to validate specifications and as
// the property's predicate on real inputs/outputs (never instead of a theorem).

import (
	"bytes"
	"encoding/json"
	"fmt"
	"os"
	"os/exec"
	"path/filepath"
)

// NodePrelude is prepended (inside the vm context) to every program.
// $p(...args) logs its arguments and returns the last one; $fmt renders a
// value so that -0, NaN, lone surrogates, bigint, undefined, symbols, holes
// and (shallow) object shapes are distinguishable.
const NodePrelude = `
var $log = [];
function $fmt(v, d) {
  d = d || 0;
  if (v === undefined) return "undefined";
  if (v === null) return "null";
  switch (typeof v) {
    case "number": return Object.is(v, -0) ? "-0" : String(v);
    case "bigint": return String(v) + "n";
    case "string": return JSON.stringify(v);
    case "boolean": return String(v);
    case "symbol": return "Symbol(" + String(v.description) + ")";
    case "function": return "function";
  }
  if (d > 2) return "{...}";
  if (Array.isArray(v)) {
    var a = [];
    for (var i = 0; i < v.length && i < 20; i++) a.push(i in v ? $fmt(v[i], d + 1) : "<hole>");
    return "[" + a.join(",") + "]";
  }
  if (v instanceof Error) return "Error:" + v.constructor.name;
  var ks = Object.keys(v).slice(0, 20), o = [];
  for (var k of ks) {
    var desc = Object.getOwnPropertyDescriptor(v, k);
    o.push(JSON.stringify(k) + ":" + (desc && "value" in desc ? $fmt(desc.value, d + 1) : "<accessor>"));
  }
  return "{" + o.join(",") + "}";
}
function $p() {
  var a = [];
  for (var i = 0; i < arguments.length; i++) a.push($fmt(arguments[i]));
  $log.push(a.join(" "));
  if ($log.length > 5000) throw new RangeError("probe log overflow");
  return arguments[arguments.length - 1];
}
`

const nodeRunner = `
const vm = require("vm"), fs = require("fs");
const input = JSON.parse(fs.readFileSync(process.argv[2], "utf8"));
const prelude = input.prelude;
const out = [];
for (const prog of input.programs) {
  const ctx = vm.createContext({ console: { log() {}, error() {}, warn() {} } });
  let res = { log: [], error: null };
  try {
    vm.runInContext(prelude, ctx, { timeout: 1000 });
    try {
      vm.runInContext(prog, ctx, { timeout: input.timeout });
    } catch (e) {
      let name = "unknown";
      try { name = (e && e.constructor && e.constructor.name) || typeof e; } catch (_) {}
      if (e && e.code === "ERR_SCRIPT_EXECUTION_TIMEOUT") name = "TIMEOUT";
      if (e instanceof SyntaxError || (e && e.name === "SyntaxError" && !(ctx.$log && ctx.$log.length))) name = "SyntaxError";
      let thrown = "";
      try { thrown = vm.runInContext("$fmt", ctx)(e); } catch (_) {}
      res.error = name; res.thrown = thrown;
    }
    res.log = vm.runInContext("$log", ctx).slice();
  } catch (e) {
    res.error = "HARNESS:" + String(e);
  }
  out.push(res);
}
fs.writeFileSync(process.argv[3], JSON.stringify(out));
`

type NodeResult struct {
	Log    []string `json:"log"`
	Error  *string  `json:"error"`
	Thrown string   `json:"thrown"`
}

func (r NodeResult) Err() string {
	if r.Error == nil {
		return ""
	}
	return *r.Error
}

// Same reports whether two executions are observably identical: same probe
// log, same exception class (and same rendered thrown value).
func (r NodeResult) Same(o NodeResult) bool {
	if r.Err() != o.Err() || len(r.Log) != len(o.Log) {
		return false
	}
	if r.Err() != "" && r.Thrown != o.Thrown {
		return false
	}
	for i := range r.Log {
		if r.Log[i] != o.Log[i] {
			return false
		}
	}
	return true
}

func (r NodeResult) String() string {
	b, _ := json.Marshal(r)
	if len(b) > 600 {
		return string(b[:600]) + "..."
	}
	return string(b)
}

// RunNodeScripts executes each program as a classic script in its own context.
func RunNodeScripts(programs []string, timeoutMs int) ([]NodeResult, error) {
	dir, err := os.MkdirTemp("", "verif-node-")
	if err != nil {
		return nil, err
	}
	defer os.RemoveAll(dir)
	in := map[string]interface{}{"prelude": NodePrelude, "programs": programs, "timeout": timeoutMs}
	data, _ := json.Marshal(in)
	inp := filepath.Join(dir, "in.json")
	outp := filepath.Join(dir, "out.json")
	run := filepath.Join(dir, "run.js")
	if err := os.WriteFile(inp, data, 0o644); err != nil {
		return nil, err
	}
	if err := os.WriteFile(run, []byte(nodeRunner), 0o644); err != nil {
		return nil, err
	}
	cmd := exec.Command("node", "--stack-size=2000", run, inp, outp)
	var stderr bytes.Buffer
	cmd.Stderr = &stderr
	if err := cmd.Run(); err != nil {
		return nil, fmt.Errorf("node failed: %v: %s", err, stderr.String())
	}
	raw, err := os.ReadFile(outp)
	if err != nil {
		return nil, err
	}
	var res []NodeResult
	if err := json.Unmarshal(raw, &res); err != nil {
		return nil, err
	}
	if len(res) != len(programs) {
		return nil, fmt.Errorf("node returned %d results for %d programs", len(res), len(programs))
	}
	return res, nil
}

// RunNodeModule runs `node <entry>` in dir (for ESM/CJS module graphs); the
// entry is expected to print one JSON value on the last stdout line.
func RunNodeModule(dir string, args ...string) (string, string, error) {
	cmd := exec.Command("node", args...)
	cmd.Dir = dir
	var stdout, stderr bytes.Buffer
	cmd.Stdout = &stdout
	cmd.Stderr = &stderr
	err := cmd.Run()
	return stdout.String(), stderr.String(), err
}
