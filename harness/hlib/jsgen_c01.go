package hlib

// C01: sloppy-mode block-level function declarations (ECMA-262 Annex B.3.3).
//
// In sloppy mode `{ function f() {} }` declares a block-scoped f (initialised
// at block entry) AND, unless that would clash with a lexical declaration or a
// parameter name, a var-scoped f in the enclosing function that is assigned the
// CURRENT value of the block binding when the declaration is EVALUATED (at its
// position in the statement list).  Whether the two can be told apart depends
// on what happens in the block before the declaration position: an abrupt
// exit (continue/break/return/throw), a read of the var binding through an
// outer closure, or a write to the block binding.
//
// GenAnnexB builds one closed probe program of that family together with the
// variants the C01 oracle needs to classify a difference exactly:
//   Src      the program
//   Hoisted  the same program with the declaration moved to the START of its
//            block (natively this is "var binding assigned at block entry")
//   Renamed / RenamedHoisted  (only when Param) the same two programs with the
//            clashing parameter renamed and `var F = <parameter>;` as the first
//            statement (natively: "F is an ordinary var initialised from the
//            argument, so the block function IS hoisted over it")
//   Early    something that can observe the assignment timing happens in the
//            block before the declaration position
//   Param    the function's name is also a parameter name of the enclosing
//            function (Annex B: then there is NO var-scoped binding)

import (
	"fmt"
	"strings"
)

type AnnexBCase struct {
	Src, Hoisted            string
	Renamed, RenamedHoisted string
	Early, Param            bool
	SwitchOther             bool // the declaration sits in a case clause that is not entered while another clause uses the name
	Shape                   string
}

func GenAnnexB(r *Rng) AnnexBCase {
	F := fmt.Sprintf("f%d", r.Range(1, 9))
	id := 0
	p := func(tag string, vals ...string) string {
		id++
		return fmt.Sprintf("$p(%d, %q, %s);", id, tag, strings.Join(vals, ", "))
	}
	// context: 0 top level, 1 inside a function, 2 inside a function whose
	// parameter has the same name, 3 inside a block with an outer `let` of the same name
	ctx := []int{0, 0, 0, 1, 1, 2, 3}[r.Intn(7)]
	hasRd := ctx != 3
	rdCall := "0"
	if hasRd {
		rdCall = "rd()"
	}
	kinds := []string{"plain", "if", "for", "while", "dowhile", "forof", "labelled", "try", "switch"}
	kind := kinds[r.Intn(len(kinds))]
	isLoop := kind == "for" || kind == "while" || kind == "dowhile" || kind == "forof"

	// statements before the declaration position
	var pre []string
	early := false
	conds := []string{"1", "1", "0"}
	if isLoop {
		conds = []string{"i == 0", "i == 1", "1", "0", "i == 0"}
	}
	for k := r.Intn(3); k > 0; k-- {
		switch r.Intn(5) {
		case 0:
			pre = append(pre, p("pre-inner", "typeof "+F))
		case 1:
			if hasRd {
				pre = append(pre, p("pre-outer", rdCall))
				early = true
			}
		case 2:
			pre = append(pre, F+" = "+fmt.Sprint(r.Range(1, 9))+";")
			early = true
		default:
			c := conds[r.Intn(len(conds))]
			var ex []string
			if isLoop {
				ex = append(ex, "continue", "break")
			}
			if kind == "labelled" {
				ex = append(ex, "break L")
			}
			if kind == "try" {
				ex = append(ex, "throw new RangeError(\"t\")")
			}
			if kind == "switch" {
				ex = append(ex, "break")
			}
			if ctx == 1 || ctx == 2 {
				ex = append(ex, "return \"early-return\"")
			}
			if len(ex) == 0 {
				pre = append(pre, p("pre-inner", "typeof "+F))
				continue
			}
			pre = append(pre, "if ("+c+") "+ex[r.Intn(len(ex))]+";")
			if c != "0" {
				early = true
			}
		}
	}
	decl := "function " + F + "() { return \"called\" }"
	var post []string
	post = append(post, p("in", "typeof "+F, rdCall))
	if r.Chance(30) {
		post = append(post, F+" = \"reassigned\";", p("in2", "typeof "+F, rdCall))
	}

	body := func(hoisted bool) string {
		var parts []string
		if hoisted {
			parts = append(parts, decl)
			parts = append(parts, pre...)
		} else {
			parts = append(parts, pre...)
			parts = append(parts, decl)
		}
		parts = append(parts, post...)
		return strings.Join(parts, "\n  ")
	}
	sel := r.Intn(2) // switch discriminant
	block := func(hoisted bool) string {
		b := body(hoisted)
		switch kind {
		case "plain":
			return "{\n  " + b + "\n}"
		case "if":
			return "if (1) {\n  " + b + "\n}"
		case "for":
			return "for (var i = 0; i < 2; i++) {\n  " + b + "\n}"
		case "while":
			return "var i = -1; while (++i < 2) {\n  " + b + "\n}"
		case "dowhile":
			return "var i = 0; do {\n  " + b + "\n} while (++i < 2);"
		case "forof":
			return "for (var i of [0, 1]) {\n  " + b + "\n}"
		case "labelled":
			return "L: {\n  " + b + "\n}"
		case "try":
			return "try {\n  " + b + "\n} catch (e) { $p(\"caught\", e && e.constructor && e.constructor.name); }"
		default:
			return fmt.Sprintf("switch (%d) {\n case 0:\n  %s\n  break;\n case 1:\n  $p(\"case1\", typeof %s);\n}", sel, b, F)
		}
	}
	sibling := ""
	if r.Chance(25) && ctx != 3 {
		sibling = "{ function " + F + "() { return \"first\" } }\n"
	}
	after := func() string {
		return p("after", "typeof "+F, rdCall) + "\ntry { " + p("call", F+"()") + " } catch (e) { " + p("call-threw", "e && e.constructor && e.constructor.name") + " }"
	}
	before := p("before", "typeof "+F)
	mk := func(hoisted bool, param string) string {
		save := id
		defer func() { id = save }()
		var sb strings.Builder
		switch ctx {
		case 0:
			sb.WriteString("function rd() { return typeof " + F + " }\n")
			sb.WriteString(before + "\n" + sibling + block(hoisted) + "\n" + after() + "\n")
		case 1, 2:
			sb.WriteString("function W(" + param + ") {\n")
			if param == "renamedParam" {
				sb.WriteString("var " + F + " = renamedParam;\n")
			}
			sb.WriteString("function rd() { return typeof " + F + " }\n")
			sb.WriteString(before + "\n" + sibling + block(hoisted) + "\n" + after() + "\nreturn typeof " + F + ";\n}\n")
			sb.WriteString("try { $p(\"ret\", W(1)); } catch (e) { $p(\"E\", e && e.constructor && e.constructor.name); }\n")
			sb.WriteString("$p(\"global\", typeof " + F + ");\n")
		default:
			sb.WriteString("{\nlet " + F + " = 0;\n" + block(hoisted) + "\n$p(\"after-inner\", typeof " + F + ");\n}\n$p(\"outer\", typeof " + F + ");\n")
		}
		return sb.String()
	}
	// the probe ids of pre/post statements were drawn above; before/after use
	// fresh ids that must be identical in all variants (mk restores id)
	c := AnnexBCase{Early: early, Param: ctx == 2, SwitchOther: kind == "switch" && sel == 1, Shape: fmt.Sprintf("ctx%d:%s", ctx, kind)}
	param := ""
	if ctx == 2 {
		param = F
	}
	if ctx == 1 {
		param = "a"
	}
	c.Src = mk(false, param)
	c.Hoisted = mk(true, param)
	if ctx == 2 {
		c.Renamed = mk(false, "renamedParam")
		c.RenamedHoisted = mk(true, "renamedParam")
	}
	return c
}

// ---------------------------------------------------------------------------
// Newline-sensitive programs (ECMA-262 12.10 automatic semicolon insertion and
// the restricted productions): a statement that may or may not continue on
// the next line.  Node decides what the input means (invalid combinations are
// discarded by the caller); the output must mean the same.
type ASICase struct {
	Src       string
	YieldLT   bool // `yield` at a line end followed by a line that could continue an expression
	PostfixLT bool // `x++` / `x--` at a line end followed by a line starting with [ ( or a template
	Shape     string
}

var asiEnds = []string{"a++", "a--", "b = a++", "b = a--", "a", "b = a", "b = f", "f", "b = 1", "b = a + 1", "b = f(1)", "b = [1]", "b = {}", "b = 'x'", "b = /r/", "b = () => 1", "b = function () {}", "b = class {}", "b = a ? 1 : 2", "b = typeof a", "b = -a", "b = !a", "void a", "a +", "b = a -", "b = a *", "b ="}
var asiStarts = []string{"[$p(\"s\", 1)].length", "($p(\"s\", 2))", "`t${$p(\"s\", 3)}`", "+$p(\"s\", 4)", "-$p(\"s\", 5)", "++a", "--a", "/2/.test(\"2\") && $p(\"s\", 6)", "/ 2 / $p(\"s\", 7)", "$p(\"s\", 8)", "[0, 1].forEach(x => $p(\"s\", x))", "(function () { $p(\"s\", 9) })()", "`x`.length", ".5 + $p(\"s\", 10)", "in {}", "instanceof Object", "?.x", "=> 1"}

func GenASI(r *Rng) ASICase {
	pre := "var a = 1, b = 2; function f(x) { $p(\"f\", typeof x); return f }\n"
	post := "\n$p(\"end\", typeof a == \"number\" ? a : typeof a, typeof b == \"number\" ? b : typeof b);\n"
	switch r.Intn(6) {
	case 0: // restricted productions: return / break / continue / yield / throw / async
		k := r.Intn(6)
		st := asiStarts[r.Intn(len(asiStarts))]
		var body string
		switch k {
		case 0:
			body = "function g() { return\n" + st + " }\n$p(\"g\", g());"
		case 1:
			body = "L: for (var i = 0; i < 2; i++) { $p(i); if (i) break\nL\n" + st + " }"
		case 2:
			body = "L: for (var i = 0; i < 2; i++) { $p(i); if (!i) continue\nL\n" + st + " }"
		case 3:
			body = "function* h() { var x = yield\n" + st + "\nreturn x }\nvar it = h(); $p(\"y\", it.next().value, it.next(5).value);"
		case 4:
			body = "for (var i = 0; i < 2; i++) { $p(i); if (i) break\n" + st + " }"
		default:
			body = "var async = 3; var r = async\nfunction q() { return 4 }\n$p(\"a\", r, typeof q);"
		}
		return ASICase{Src: pre + "try {\n" + body + "\n} catch (e) { $p(\"E\", e && e.constructor && e.constructor.name); }" + post, Shape: fmt.Sprintf("restricted%d", k), YieldLT: k == 3}
	default:
		e := asiEnds[r.Intn(len(asiEnds))]
		st := asiStarts[r.Intn(len(asiStarts))]
		c := ASICase{Shape: "line-pair"}
		if (e == "a++" || e == "a--" || e == "b = a++" || e == "b = a--") && (strings.HasPrefix(st, "[") || strings.HasPrefix(st, "(") || strings.HasPrefix(st, "`")) {
			c.PostfixLT = true
			c.Shape = "postfix-then-bracket"
		}
		c.Src = pre + "try {\n" + e + "\n" + st + "\n} catch (e) { $p(\"E\", e && e.constructor && e.constructor.name); }" + post
		return c
	}
}

// ---------------------------------------------------------------------------
// Compositions of the short-circuit / nullish operators with each other in
// every nesting, over operands of three kinds:
//   run-time values   a, b   (drawn at run time from null, undefined, 0, "",
//                             false, NaN, 1, "x", objects: the program loops)
//   K                 expressions whose type is syntactically known (literals,
//                     + - ~ ! typeof void, arithmetic / comparison / in /
//                     instanceof, templates) - what a compile-time analysis
//                     may classify as never / always nullish, truthy, falsy
//   P                 probe calls $p(id, K) (opaque to the compiler, with a
//                     visible side effect: shows whether an operand was evaluated)
// e.g. (a && K) ?? P, (a || K) ?? b, (a ?? K) ?? P, (a && K) || P, a ?? (b && K),
// !(a && K) ? P : K, (a, K) ?? P, a?.x ?? K, b ??= K ...
func GenLogical(r *Rng) string {
	id := 0
	probe := func(inner string) string {
		id++
		return fmt.Sprintf("$p(%d, %s)", id, inner)
	}
	known := func() string {
		ks := []string{"1", "0", "\"yes\"", "\"\"", "true", "false", "1n", "0n", "/r/", "function () {}", "{}", "[]", "class {}", "null", "undefined", "void 0",
			"+a", "-a", "~a", "!a", "!!a", "typeof a", "void a", "a > 0", "a == null", "a === b", "\"k\" in {k: 1}", "({}) instanceof Object",
			"a + 1", "a * 2", "a | 0", "a - b", "`t${b}`", "`t`", "a + \"\"", "(a, 1)", "(b, null)", "NaN", "Infinity", "-1", "\"x\" + b", "[a].length", "a != b"}
		return ks[r.Intn(len(ks))]
	}
	var gen func(depth int) (string, bool) // text, atomic
	gen = func(depth int) (string, bool) {
		if depth <= 0 || r.Chance(25) {
			switch r.Intn(7) {
			case 0, 1:
				return "a", true
			case 2:
				return "b", true
			case 3, 4:
				k := known()
				return "(" + k + ")", true
			case 5:
				return probe(known()), true
			default:
				return []string{"a?.k", "a?.[0]", "b?.length", "o.n", "o.z"}[r.Intn(5)], true
			}
		}
		l, _ := gen(depth - 1)
		rr, _ := gen(depth - 1)
		switch r.Intn(12) {
		case 0, 1, 2:
			return "(" + l + " && " + rr + ")", true
		case 3, 4:
			return "(" + l + " || " + rr + ")", true
		case 5, 6, 7:
			return "(" + l + " ?? " + rr + ")", true
		case 8:
			return "(" + l + ", " + rr + ")", true
		case 9:
			c, _ := gen(depth - 1)
			return "(" + c + " ? " + l + " : " + rr + ")", true
		case 10:
			return "(!" + l + ")", true
		default:
			op := []string{"??=", "||=", "&&="}[r.Intn(3)]
			return "(t " + op + " " + rr + ")", true
		}
	}
	var sb strings.Builder
	sb.WriteString("var o = {n: null, z: 0}, t;\nfor (var a of [null, undefined, 0, \"\", false, NaN, 1, \"x\", {k: 1}, [7]]) for (var b of [undefined, null, 0, \"b\"]) {\n")
	for k := r.Range(2, 4); k > 0; k-- {
		e, _ := gen(r.Range(2, 3))
		// the shapes the nullish / boolean folding looks at, drawn often
		if r.Chance(45) {
			inner := []string{"&&", "||", "??"}[r.Intn(3)]
			outer := []string{"??", "??", "||", "&&"}[r.Intn(4)]
			left := "(" + []string{"a", "b", "a?.k", probe("a")}[r.Intn(4)] + " " + inner + " " + "(" + known() + "))"
			right := []string{probe(known()), "b", "(" + known() + ")"}[r.Intn(3)]
			if r.Chance(25) {
				e = "(" + right + " " + outer + " " + left + ")"
			} else {
				e = "(" + left + " " + outer + " " + right + ")"
			}
		}
		switch r.Intn(4) {
		case 0:
			fmt.Fprintf(&sb, "  t = b; try { if (%s) $p(\"then\"); else $p(\"else\"); } catch (e) { $p(\"E\", e && e.constructor && e.constructor.name); }\n", e)
		case 1:
			fmt.Fprintf(&sb, "  t = a; try { $p(\"r\", %s ? \"T\" : \"F\"); } catch (e) { $p(\"E\", e && e.constructor && e.constructor.name); }\n", e)
		default:
			fmt.Fprintf(&sb, "  t = b; try { $p(\"r\", %s, t); } catch (e) { $p(\"E\", e && e.constructor && e.constructor.name); }\n", e)
		}
	}
	sb.WriteString("}\n")
	return sb.String()
}
