package hlib

// Seeded generator of closed, deterministic, terminating JavaScript programs
// whose observable behaviour is a probe log ($p calls, see NodePrelude).
// Expressions are rendered with an independent precedence table written from
// the ECMA-262 expression grammar (minimal parentheses), so that the parser and
// the printer of the system under test see many precedence shapes.  A program
// the reference engine rejects is discarded by the caller (and counted).

import (
	"fmt"
	"strings"
)

type JSFeat struct {
	ES2015      bool // let/const, arrows, classes, templates, destructuring, spread, for-of, computed keys, shorthand
	Exponent    bool // ** and **=
	Nullish     bool // ??
	OptChain    bool // ?.
	LogicalAsg  bool // ||= &&= ??=
	BigInt      bool
	ClassFields bool // public/private fields, static blocks
	Generators  bool
	Loops       bool
	Exceptions  bool
	Coercions   bool // objects with valueOf/toString/Symbol.toPrimitive/getters
	Strict      bool // prepend "use strict"
}

func AllJSFeatures() JSFeat {
	return JSFeat{ES2015: true, Exponent: true, Nullish: true, OptChain: true, LogicalAsg: true, BigInt: true, ClassFields: true, Generators: true, Loops: true, Exceptions: true, Coercions: true}
}

// precedence levels (higher binds tighter)
const (
	lvComma = iota
	lvAssign
	lvCond
	lvNullish
	lvOr
	lvAnd
	lvBitOr
	lvBitXor
	lvBitAnd
	lvEq
	lvRel
	lvShift
	lvAdd
	lvMul
	lvExp
	lvPrefix
	lvPostfix
	lvCall
	lvPrimary
)

type JSGen struct {
	R      *Rng
	F      JSFeat
	probe  int
	vars   []string // assignable variables in scope
	consts []string // readable only
	funcs  []string // callable functions f(a,b)
	objs   []string // variables holding objects
	nameNo int
	depth  int
	inFunc int
	inLoop int
	labels []string
	noIn   int // > 0 while rendering a for-loop initialiser: a bare `in` must be parenthesised there
	// statistics
	Ops map[string]int
}

func NewJSGen(r *Rng, f JSFeat) *JSGen { return &JSGen{R: r, F: f, Ops: map[string]int{}} }

func (g *JSGen) count(k string) { g.Ops[k]++ }

func (g *JSGen) fresh(prefix string) string {
	g.nameNo++
	return fmt.Sprintf("%s%d", prefix, g.nameNo)
}

func paren(text string, level, min int) string {
	if level < min {
		return "(" + text + ")"
	}
	return text
}

var NumberGrid = []string{"0", "-0", "1", "-1", "2", "3", "7", "10", "0.5", "-0.5", "1.5", "0.1", "1e3", "1e21", "1e-7", "255", "256", "1000", "65535", "65536",
	"2147483647", "2147483648", "-2147483648", "-2147483649", "4294967295", "4294967296", "4294967297", "9007199254740991", "9007199254740992", "9007199254740993",
	"1.7976931348623157e308", "5e-324", "2.2250738585072014e-308", "123456789012", "0x7fffffff", "0xffffffff", "1e100", "0.000001", "1234.5678", "NaN", "Infinity", "-Infinity", "1/0", "0/0", "-1/0",
	"0b101", "0o17", "1_000", ".5", "5.", "0.30000000000000004", "100", "1e2", "12e3", "1200", "1000000", "999999999999999", "1e15", "123456789e-20"}

var StringGrid = []string{`""`, `"a"`, `"abc"`, `"1"`, `"0"`, `"-0"`, `" 12 "`, `"1e3"`, `"0x10"`, `"0b11"`, `"Infinity"`, `"-Infinity"`, `"NaN"`, `"null"`, `"undefined"`, `"true"`, `"false"`, `"\n"`, `"a\nb"`, `" "`,
	`"'"`, `"\""`, "\"`\"", `"${x}"`, `"\\"`, `"\0"`, `"\x001"`, "\"\u2028\"", "\"\u2029\"", `"\ud800"`, `"\udc00"`, "\"\U0001F600\"", `"\ude00\ud83d"`, "\"\u00e9\"", `"\u00e9"`, "\"\uFEFF\"", `"\ufeff"`, `"</script>"`, `"</SCRIPT"`, `"<!--"`, `"-->"`,
	`'single'`, `'it\'s'`, `"a\tb"`, `"\x07"`, `"\x1b"`, `"\v\f\b\r"`, `"length"`, `"__proto__"`, `"constructor"`, `"12abc"`, `"1.50"`, `"+1"`, `"1,2"`, `"[object Object]"`, `"\u{1F600}"`, `"\u{61}"`, "\"a\\\nb\"",
	"\"\u00a0\"", `"\x7f"`, `"\x80\xff"`, "\"\u4e2d\u6587\"", `"\u2028x"`}

func (g *JSGen) number() string { return g.R.Pick(NumberGrid) }
func (g *JSGen) str() string    { return g.R.Pick(StringGrid) }

func (g *JSGen) probeCall(inner string) string {
	g.probe++
	return fmt.Sprintf("$p(%d, %s)", g.probe, inner)
}

// Leaf returns (text, level)
func (g *JSGen) leaf() (string, int) {
	r := g.R
	switch r.Intn(14) {
	case 0, 1:
		n := g.number()
		if strings.HasPrefix(n, "-") {
			return n, lvPrefix
		}
		if strings.Contains(n, "/") {
			return n, lvMul
		}
		return n, lvPrimary
	case 2, 3:
		return g.str(), lvPrimary
	case 4:
		return r.Pick([]string{"true", "false", "null", "undefined", "void 0"}), lvPrefix
	case 5, 6:
		if len(g.vars)+len(g.consts) > 0 {
			all := append(append([]string{}, g.vars...), g.consts...)
			return r.Pick(all), lvPrimary
		}
		return g.number(), lvPrefix
	case 7:
		if g.F.BigInt && r.Chance(30) {
			return r.Pick([]string{"0n", "1n", "-1n", "12345678901234567890n", "2n"}), lvPrefix
		}
		return g.probeCall(g.number()), lvCall
	case 8:
		if g.F.Coercions {
			return g.coercionObject(), lvPrimary
		}
		return g.probeCall(g.str()), lvCall
	case 9:
		if len(g.objs) > 0 {
			o := r.Pick(g.objs)
			switch r.Intn(3) {
			case 0:
				return o + "." + r.Pick([]string{"a", "b", "x", "length"}), lvCall
			case 1:
				return o + "[" + g.probeCall(r.Pick([]string{`"a"`, `"b"`, `0`, `"x"`})) + "]", lvCall
			default:
				if g.F.OptChain {
					g.count("?.")
					return o + "?." + r.Pick([]string{"a", "b", "x"}), lvCall
				}
				return o + ".a", lvCall
			}
		}
		return g.probeCall(g.number()), lvCall
	default:
		if r.Bool() {
			return g.probeCall(g.number()), lvCall
		}
		return g.probeCall(g.str()), lvCall
	}
}

func (g *JSGen) coercionObject() string {
	r := g.R
	g.count("coercion-object")
	val := g.number()
	if r.Bool() {
		val = g.str()
	}
	g.probe++
	id := g.probe
	switch r.Intn(4) {
	case 0:
		return fmt.Sprintf("{valueOf: function() { $p(%d); return %s }}", id, val)
	case 1:
		return fmt.Sprintf("{toString: function() { $p(%d); return %s }}", id, val)
	case 2:
		return fmt.Sprintf("{valueOf: function() { $p(%d, \"v\"); return %s }, toString: function() { $p(%d, \"s\"); return %s }}", id, val, id, g.str())
	default:
		if g.F.ES2015 {
			return fmt.Sprintf("{[Symbol.toPrimitive](h) { $p(%d, h); return %s }}", id, val)
		}
		return fmt.Sprintf("{valueOf: function() { $p(%d); return %s }}", id, val)
	}
}

var binOps = []struct {
	op    string
	level int
	right bool // right associative
}{
	{"+", lvAdd, false}, {"-", lvAdd, false}, {"*", lvMul, false}, {"/", lvMul, false}, {"%", lvMul, false},
	{"<<", lvShift, false}, {">>", lvShift, false}, {">>>", lvShift, false},
	{"<", lvRel, false}, {"<=", lvRel, false}, {">", lvRel, false}, {">=", lvRel, false}, {"in", lvRel, false}, {"instanceof", lvRel, false},
	{"==", lvEq, false}, {"!=", lvEq, false}, {"===", lvEq, false}, {"!==", lvEq, false},
	{"&", lvBitAnd, false}, {"^", lvBitXor, false}, {"|", lvBitOr, false},
	{"&&", lvAnd, false}, {"||", lvOr, false},
}

// Expr returns an expression whose own level is >= min (parenthesised if needed)
func (g *JSGen) Expr(depth, min int) string {
	t, l := g.expr(depth)
	return paren(t, l, min)
}

func (g *JSGen) expr(depth int) (string, int) {
	r := g.R
	if depth <= 0 || r.Chance(15) {
		return g.leaf()
	}
	switch r.Intn(22) {
	case 0, 1, 2, 3, 4, 5: // binary
		b := binOps[r.Intn(len(binOps))]
		g.count(b.op)
		lmin, rmin := b.level, b.level+1
		if b.op == "in" || b.op == "instanceof" {
			// right operand should usually be an object/function to avoid constant TypeErrors
			if len(g.objs) > 0 && r.Chance(70) {
				rhs := r.Pick(g.objs)
				if b.op == "instanceof" {
					rhs = r.Pick([]string{"Object", "Array", "Function", "Error"})
				}
				if b.op == "in" && g.noIn > 0 {
					g.count("in-in-for-init")
					return "(" + g.Expr(depth-1, lmin) + " in " + rhs + ")", lvPrimary
				}
				return g.Expr(depth-1, lmin) + " " + b.op + " " + rhs, b.level
			}
		}
		l := g.Expr(depth-1, lmin)
		rr := g.Expr(depth-1, rmin)
		if b.op == "in" && g.noIn > 0 {
			// the grammar forbids an unparenthesised `in` anywhere in a for-loop
			// initialiser ([~In] productions); parentheses make it valid input and
			// the system under test has to put them back when printing
			g.count("in-in-for-init")
			return "(" + l + " in " + rr + ")", lvPrimary
		}
		// ?? may not be mixed with || and && without parentheses: our operands at
		// level >= lvOr never expose a bare ?? (it is lower), but a || b inside ??
		// is handled in the nullish case below.
		return l + " " + b.op + " " + rr, b.level
	case 6:
		if g.F.Exponent {
			g.count("**")
			// left operand of ** may not be a unary expression: require postfix level
			return g.Expr(depth-1, lvPostfix) + " ** " + g.Expr(depth-1, lvExp), lvExp
		}
		return g.leaf()
	case 7:
		if g.F.Nullish {
			g.count("??")
			// operands of ?? must not be bare || or &&: ask for level above lvAnd on both sides
			return g.Expr(depth-1, lvBitOr) + " ?? " + g.Expr(depth-1, lvBitOr), lvNullish
		}
		return g.leaf()
	case 8, 9: // unary prefix
		op := r.Pick([]string{"!", "-", "+", "~", "typeof ", "void ", "!", "-"})
		g.count("unary" + strings.TrimSpace(op))
		inner := g.Expr(depth-1, lvPrefix)
		// avoid -- and ++ and +- gluing
		if (op == "-" && strings.HasPrefix(inner, "-")) || (op == "+" && strings.HasPrefix(inner, "+")) {
			inner = " " + inner
		}
		return op + inner, lvPrefix
	case 10: // update
		if len(g.vars) > 0 {
			v := r.Pick(g.vars)
			g.count("update")
			switch r.Intn(4) {
			case 0:
				return v + "++", lvPostfix
			case 1:
				return v + "--", lvPostfix
			case 2:
				return "++" + v, lvPrefix
			default:
				return "--" + v, lvPrefix
			}
		}
		return g.leaf()
	case 11: // conditional
		g.count("?:")
		return g.Expr(depth-1, lvNullish) + " ? " + g.Expr(depth-1, lvAssign) + " : " + g.Expr(depth-1, lvAssign), lvCond
	case 12: // assignment
		if len(g.vars) > 0 {
			v := r.Pick(g.vars)
			ops := []string{"=", "+=", "-=", "*=", "/=", "%=", "<<=", ">>=", ">>>=", "&=", "|=", "^="}
			if g.F.Exponent {
				ops = append(ops, "**=")
			}
			if g.F.LogicalAsg {
				ops = append(ops, "||=", "&&=", "??=")
			}
			op := r.Pick(ops)
			g.count(op)
			target := v
			if len(g.objs) > 0 && r.Chance(35) {
				o := r.Pick(g.objs)
				if r.Bool() {
					target = o + "." + r.Pick([]string{"a", "b", "x"})
				} else {
					target = o + "[" + g.probeCall(r.Pick([]string{`"a"`, `"k"`, "0"})) + "]"
				}
			}
			return target + " " + op + " " + g.Expr(depth-1, lvAssign), lvAssign
		}
		return g.leaf()
	case 13: // comma
		g.count(",")
		return g.Expr(depth-1, lvAssign) + ", " + g.Expr(depth-1, lvAssign), lvComma
	case 14: // call of a declared function or method
		if len(g.funcs) > 0 {
			f := r.Pick(g.funcs)
			g.count("call")
			args := []string{}
			for k := r.Intn(3); k > 0; k-- {
				args = append(args, g.Expr(depth-1, lvAssign))
			}
			if g.F.ES2015 && r.Chance(15) {
				g.count("spread-arg")
				args = append(args, "...["+g.Expr(depth-1, lvAssign)+"]")
			}
			return f + "(" + strings.Join(args, ", ") + ")", lvCall
		}
		return g.leaf()
	case 15: // array / object literal
		if r.Bool() {
			g.count("array")
			items := []string{}
			for k := r.Intn(4); k > 0; k-- {
				if g.F.ES2015 && r.Chance(15) {
					items = append(items, "...["+g.Expr(depth-1, lvAssign)+"]")
				} else if r.Chance(8) {
					items = append(items, "")
				} else {
					items = append(items, g.Expr(depth-1, lvAssign))
				}
			}
			s := "[" + strings.Join(items, ", ") + "]"
			if len(items) > 0 && items[len(items)-1] == "" {
				s = "[" + strings.Join(items, ", ") + ",]"
			}
			return s + r.Pick([]string{"", ".length", "[0]", ".join()"}), lvCall
		}
		g.count("object")
		props := []string{}
		for k := r.Intn(4); k > 0; k-- {
			key := r.Pick([]string{"a", "b", `"c d"`, "1", "x"})
			if g.F.ES2015 && r.Chance(25) {
				key = "[" + g.probeCall(r.Pick([]string{`"a"`, `"k"`, "1"})) + "]"
			}
			props = append(props, key+": "+g.Expr(depth-1, lvAssign))
		}
		if g.F.ES2015 && r.Chance(15) && len(g.objs) > 0 {
			props = append(props, "..."+r.Pick(g.objs))
		}
		return "{" + strings.Join(props, ", ") + "}" + r.Pick([]string{".a", `["b"]`, ".x", ""}), lvCall
	case 16: // template literal
		if g.F.ES2015 {
			g.count("template")
			var sb strings.Builder
			sb.WriteByte('`')
			for k := r.Range(1, 3); k > 0; k-- {
				sb.WriteString(r.Pick([]string{"", "a", " ", "\\n", "$", "{", "\\`", "\u00e9", "\\u2028", "x\ny"}))
				sb.WriteString("${" + g.Expr(depth-1, lvComma) + "}")
			}
			sb.WriteString(r.Pick([]string{"", "z", "\\\\"}))
			sb.WriteByte('`')
			return sb.String(), lvPrimary
		}
		return g.leaf()
	case 17: // immediately invoked function / arrow
		g.count("iife")
		body := g.Expr(depth-1, lvAssign)
		if g.F.ES2015 && r.Bool() {
			p := g.fresh("q")
			save := g.consts
			g.consts = append(g.consts, p)
			inner := g.Expr(depth-1, lvAssign)
			if strings.HasPrefix(inner, "{") {
				inner = "(" + inner + ")" // an arrow body starting with { would be a block
			}
			g.consts = save
			return "((" + p + ") => " + inner + ")(" + body + ")", lvCall
		}
		return "(function() { return " + body + " })()", lvCall
	case 18: // optional call / chain
		if g.F.OptChain && len(g.objs) > 0 {
			g.count("?.()")
			o := r.Pick(g.objs)
			return o + r.Pick([]string{"?.m?.(", ".m?.(", "?.[\"m\"](", "?.nope?.("}) + g.Expr(depth-1, lvAssign) + ")", lvCall
		}
		return g.leaf()
	case 19: // typeof of undeclared / delete
		if len(g.objs) > 0 && r.Bool() {
			g.count("delete")
			return "delete " + r.Pick(g.objs) + "." + r.Pick([]string{"a", "zz"}), lvPrefix
		}
		g.count("typeof-undeclared")
		return "typeof notDeclaredAnywhere", lvPrefix
	case 20: // new
		g.count("new")
		return "new " + r.Pick([]string{"Object", "Array", "Number", "String"}) + "(" + g.Expr(depth-1, lvAssign) + ")" + r.Pick([]string{"", ".length", ".valueOf()"}), lvCall
	default: // parenthesised sequence / logical mix
		g.count("logical-mix")
		return g.Expr(depth-1, lvBitOr) + r.Pick([]string{" && ", " || "}) + g.Expr(depth-1, lvBitOr), lvOr - 0
	}
}

// exprStmt renders an expression statement safely (no leading {, function, class, let [)
func (g *JSGen) exprStmt(depth int) string {
	if g.R.Chance(60) {
		// observe the statement's value
		g.probe++
		return fmt.Sprintf("$p(%d, %s);", g.probe, g.Expr(depth, lvAssign))
	}
	e := g.Expr(depth, lvComma)
	if strings.HasPrefix(e, "{") || strings.HasPrefix(e, "function") || strings.HasPrefix(e, "class") || strings.HasPrefix(e, "let") || strings.HasPrefix(e, "async") {
		e = "(" + e + ")"
	}
	return e + ";"
}

func (g *JSGen) block(depth, n int) string {
	var sb strings.Builder
	sb.WriteString("{\n")
	nv, nc, no, nf := len(g.vars), len(g.consts), len(g.objs), len(g.funcs)
	for i := 0; i < n; i++ {
		sb.WriteString(g.Stmt(depth))
		sb.WriteString("\n")
	}
	// block-scoped declarations go out of scope (var/function stay usable; we
	// conservatively drop everything declared inside)
	g.vars, g.consts, g.objs, g.funcs = g.vars[:nv], g.consts[:nc], g.objs[:no], g.funcs[:nf]
	sb.WriteString("}")
	return sb.String()
}

func (g *JSGen) Stmt(depth int) string {
	r := g.R
	if depth <= 0 {
		return g.exprStmt(2)
	}
	k := r.Intn(20)
	switch {
	case k < 5:
		return g.exprStmt(r.Range(1, 3))
	case k < 7: // declaration
		name := g.fresh("v")
		kw := "var"
		if g.F.ES2015 {
			kw = r.Pick([]string{"var", "let", "const"})
		}
		g.count(kw)
		init := g.Expr(2, lvAssign)
		if kw != "var" {
			// a throwing initialiser would leave the binding in its temporal dead
			// zone for the rest of the program (excluded by the properties)
			init = g.R.Pick([]string{g.number(), g.str(), "[" + g.number() + "]", "null"})
		}
		if kw == "const" {
			g.consts = append(g.consts, name)
		} else {
			g.vars = append(g.vars, name)
		}
		return kw + " " + name + " = " + init + ";"
	case k < 8: // object variable
		name := g.fresh("o")
		g.count("obj-decl")
		id := g.probe + 1
		g.probe += 3
		s := fmt.Sprintf("var %s = {a: %s, b: %s, get x() { return $p(%d, \"get\") }, set x(v) { $p(%d, \"set\", v) }, m: function(z) { return $p(%d, \"m\", z) }};", name, g.number(), g.str(), id, id+1, id+2)
		if r.Chance(20) {
			s = fmt.Sprintf("var %s = %s;", name, r.Pick([]string{"null", "undefined", "[1, 2, 3]", "{a: {b: null}}"}))
		}
		g.objs = append(g.objs, name)
		return s
	case k < 10: // if
		g.count("if")
		s := "if (" + g.Expr(2, lvComma) + ") " + g.block(depth-1, r.Range(0, 2))
		if r.Bool() {
			if r.Chance(30) {
				s += " else if (" + g.Expr(1, lvComma) + ") " + g.block(depth-1, r.Range(0, 2))
			}
			s += " else " + g.block(depth-1, r.Range(0, 2))
		}
		return s
	case k < 12 && g.F.Loops: // loops
		g.inLoop++
		defer func() { g.inLoop-- }()
		i := g.fresh("i")
		switch r.Intn(6) {
		case 5:
			// expression (or var) initialiser with `in` in every position the
			// printer must re-parenthesise: under comma, assignment, conditional,
			// unary, arrow body, yield-free nesting
			g.count("for-init-expr")
			g.noIn++
			key := r.Pick([]string{`"a"`, `"zz"`, "0"})
			obj := "{a: 1}"
			if len(g.objs) > 0 {
				obj = r.Pick(g.objs)
			}
			inExpr := "(" + key + " in " + obj + ")"
			var init string
			switch r.Intn(8) {
			case 0:
				init = i + " = 0, " + g.probeCall(inExpr)
			case 1:
				init = g.probeCall("0") + ", " + i + " = " + inExpr + " ? 0 : 1"
			case 2:
				init = i + " = 0, " + g.Expr(2, lvAssign)
			case 3:
				init = "var " + i + " = " + inExpr + " ? 0 : 0, " + g.fresh("w") + " = !" + inExpr
			case 4:
				init = i + " = (" + g.Expr(1, lvAssign) + ", 0), " + g.probeCall("!"+inExpr)
			case 5:
				init = i + " = " + g.probeCall("() => "+inExpr) + " ? 0 : 0"
			case 6:
				init = i + " = " + inExpr + " && 0, " + g.Expr(2, lvAssign)
			default:
				init = i + " = 0, " + g.probeCall("typeof "+inExpr) + ", " + g.Expr(2, lvAssign)
			}
			g.noIn--
			decl := ""
			if !strings.HasPrefix(init, "var ") {
				decl = "var " + i + "; "
			}
			return decl + fmt.Sprintf("for (%s; %s < %d; %s++) ", init, i, r.Range(0, 2), i) + g.loopBody(depth, i)
		case 0:
			g.count("for")
			return fmt.Sprintf("for (var %s = 0; %s < %d; %s++) ", i, i, r.Range(0, 3), i) + g.loopBody(depth, i)
		case 1:
			g.count("while")
			return fmt.Sprintf("var %s = 0; while (%s++ < %d) ", i, i, r.Range(0, 3)) + g.loopBody(depth, i)
		case 2:
			g.count("do-while")
			return fmt.Sprintf("var %s = 0; do ", i) + g.loopBody(depth, i) + fmt.Sprintf(" while (++%s < %d);", i, r.Range(0, 3))
		case 3:
			if g.F.ES2015 {
				g.count("for-of")
				return fmt.Sprintf("for (var %s of [%s, %s]) ", i, g.Expr(1, lvAssign), g.Expr(1, lvAssign)) + g.loopBody(depth, i)
			}
			fallthrough
		default:
			g.count("for-in")
			return fmt.Sprintf("for (var %s in {a: 1, b: 2}) ", i) + g.loopBody(depth, i)
		}
	case k < 13: // switch
		g.count("switch")
		var sb strings.Builder
		sb.WriteString("switch (" + g.Expr(1, lvComma) + ") {\n")
		nc := r.Range(1, 3)
		def := r.Intn(nc + 1)
		for c := 0; c <= nc; c++ {
			if c == def {
				sb.WriteString("default:\n")
			} else {
				sb.WriteString("case " + g.Expr(1, lvComma) + ":\n")
			}
			sb.WriteString(g.exprStmt(1) + "\n")
			if r.Chance(60) {
				sb.WriteString("break;\n")
			}
		}
		sb.WriteString("}")
		return sb.String()
	case k < 14 && g.F.Exceptions: // try
		g.count("try")
		e := g.fresh("e")
		s := "try " + g.block(depth-1, r.Range(1, 2))
		if r.Chance(60) {
			s = "try { " + g.exprStmt(1) + " throw " + g.Expr(1, lvAssign) + "; }"
		}
		save := g.consts
		g.consts = append(g.consts, e)
		s += " catch (" + e + ") { $p(\"caught\", " + e + "); " + g.exprStmt(1) + " }"
		g.consts = save
		if r.Chance(40) {
			s += " finally " + g.block(depth-1, 1)
		}
		return s
	case k < 16: // function declaration + call
		g.count("function")
		f := g.fresh("f")
		a, b := g.fresh("a"), g.fresh("b")
		sv, sc, so, sf := g.vars, g.consts, g.objs, g.funcs
		g.vars = append(append([]string{}, g.vars...), a, b)
		g.inFunc++
		var body strings.Builder
		nst := r.Range(0, 2)
		for i := 0; i < nst; i++ {
			body.WriteString(g.Stmt(depth-1) + "\n")
		}
		if r.Chance(30) {
			body.WriteString("if (" + g.Expr(1, lvComma) + ") return " + g.Expr(1, lvComma) + ";\n")
		}
		body.WriteString("return " + g.Expr(2, lvComma) + ";")
		g.inFunc--
		g.vars, g.consts, g.objs, g.funcs = sv, sc, so, sf
		params := a + ", " + b
		if g.F.ES2015 && r.Chance(30) {
			params = a + ", " + b + " = " + g.probeCall(g.number())
			g.count("default-param")
		}
		g.funcs = append(g.funcs, f)
		return "function " + f + "(" + params + ") {\n" + body.String() + "\n}\n" + g.probeCall(f+"("+g.Expr(1, lvAssign)+")") + ";"
	case k < 17 && g.F.ES2015: // class
		g.count("class")
		c := g.fresh("C")
		o := g.fresh("o")
		id := g.probe + 1
		g.probe += 6
		var sb strings.Builder
		ext := ""
		if r.Chance(30) {
			ext = " extends (" + g.probeCall("Object") + ")"
		}
		sb.WriteString("class " + c + ext + " {\n")
		if g.F.ClassFields {
			sb.WriteString(fmt.Sprintf("  f = $p(%d, \"field\");\n  static s = $p(%d, \"static\");\n  #p = $p(%d, \"private\");\n  getP() { return this.#p }\n", id, id+1, id+2))
			if r.Bool() {
				sb.WriteString(fmt.Sprintf("  static { $p(%d, \"static-block\"); }\n", id+3))
			}
			if r.Bool() {
				sb.WriteString("  [" + g.probeCall(`"ck"`) + "] = " + g.probeCall(g.number()) + ";\n")
			}
		}
		if ext != "" {
			sb.WriteString(fmt.Sprintf("  constructor(z) { super(); $p(%d, \"ctor\", z); this.a = z }\n", id+4))
		} else {
			sb.WriteString(fmt.Sprintf("  constructor(z) { $p(%d, \"ctor\", z); this.a = z }\n", id+4))
		}
		sb.WriteString(fmt.Sprintf("  m(z) { return $p(%d, \"m\", z, this.a) }\n  static sm() { return \"sm\" }\n  get x() { return 1 }\n}\n", id+5))
		sb.WriteString("var " + o + " = new " + c + "(" + g.Expr(1, lvAssign) + ");")
		g.objs = append(g.objs, o)
		return sb.String()
	case k < 18 && g.F.ES2015: // destructuring
		if r.Chance(45) {
			return g.UnusedDestructuring()
		}
		g.count("destructuring")
		a, b := g.fresh("d"), g.fresh("d")
		g.vars = append(g.vars, a, b)
		if r.Bool() {
			return "var [" + a + ", " + b + " = " + g.probeCall(g.number()) + "] = [" + g.Expr(1, lvAssign) + "];"
		}
		return "var {a: " + a + ", b: " + b + " = " + g.probeCall(g.str()) + "} = {a: " + g.Expr(1, lvAssign) + "};"
	case k < 19: // labelled block
		g.count("label")
		l := g.fresh("L")
		return l + ": { " + g.exprStmt(1) + " if (" + g.Expr(1, lvComma) + ") break " + l + "; " + g.exprStmt(1) + " }"
	default:
		if g.F.Generators && g.F.ES2015 && r.Chance(50) {
			g.count("generator")
			f := g.fresh("g")
			if r.Chance(40) {
				// a yield operand containing `in` inside a for-loop initialiser must
				// stay parenthesised when printed
				g.count("yield-in-for-init")
				return "function* " + f + "() { for (var k = yield (\"a\" in {a: 1}), n = 0; n < 1; n++) { " + g.probeCall("k") + "; } return 3 }\n" + g.probeCall("Array.from("+f+"())") + ";"
			}
			return "function* " + f + "() { yield " + g.probeCall(g.number()) + "; yield* [" + g.Expr(1, lvAssign) + "]; return 3 }\n" + g.probeCall("Array.from("+f+"())") + ";"
		}
		return g.exprStmt(3)
	}
}

// UnusedDestructuring: a declaration whose bindings are never read again (the
// final-state dump only covers v*/d* names). A bundler or IIFE tree shaker may
// drop it, which is only sound when no default value or getter runs: the
// source value has an element/property that is present but undefined, a hole,
// an empty spread, or is absent.
func (g *JSGen) UnusedDestructuring() string {
	r := g.R
	g.count("destructuring-unused")
	u := g.fresh("u")
	dflt := g.probeCall(r.Pick([]string{g.number(), g.str()}))
	if r.Chance(20) {
		dflt = "(() => { throw new RangeError(\"boom\") })()"
	}
	src := r.Pick([]string{"[undefined]", "[void 0]", "[,]", "[...[]]", "[null]", "[1]", "[]", "[" + g.Expr(1, lvAssign) + "]", "[, 2]", "[undefined, 3]"})
	switch r.Intn(4) {
	case 0:
		return "var [" + u + " = " + dflt + "] = " + src + ";"
	case 1:
		return "var [, " + u + " = " + dflt + "] = " + src + ";"
	case 2:
		return "var {a: " + u + " = " + dflt + "} = " + r.Pick([]string{"{a: undefined}", "{a: void 0}", "{}", "{a: null}", "{a: 1}", "{get a() { return " + g.probeCall("undefined") + " }}"}) + ";"
	default:
		return "var [{b: " + u + " = " + dflt + "} = {}] = " + src + ";"
	}
}

func (g *JSGen) loopBody(depth int, i string) string {
	save := g.consts
	g.consts = append(g.consts, i)
	var sb strings.Builder
	sb.WriteString("{\n" + g.probeCall(i) + ";\n")
	if g.R.Chance(30) {
		sb.WriteString("if (" + g.Expr(1, lvComma) + ") " + g.R.Pick([]string{"break", "continue"}) + ";\n")
	}
	sb.WriteString(g.Stmt(depth-1) + "\n}")
	g.consts = save
	return sb.String()
}

// Program: n top-level statements, each isolated in try/catch so that a
// run-time exception is observed (its class is logged) and execution continues.
func (g *JSGen) Program(n int) string {
	var sb strings.Builder
	if g.F.Strict {
		sb.WriteString("\"use strict\";\n")
	}
	extra := -1
	if g.F.ES2015 && g.R.Chance(35) {
		extra = g.R.Intn(n + 1)
	}
	for i := 0; i < n; i++ {
		if i == extra {
			// top-level unused bindings: the case a tree shaker looks at
			sb.WriteString(g.UnusedDestructuring() + "\n")
		}
		st := g.Stmt(2)
		// declarations must stay at the top level to be visible to later statements
		if strings.HasPrefix(st, "var ") || strings.HasPrefix(st, "let ") || strings.HasPrefix(st, "const ") || strings.HasPrefix(st, "function") || strings.HasPrefix(st, "class ") {
			sb.WriteString(st + "\n")
			continue
		}
		sb.WriteString("try {\n" + st + "\n} catch (e) { $p(\"E\", e && e.constructor && e.constructor.name); }\n")
	}
	// final state of all variables
	all := append(append([]string{}, g.vars...), g.consts...)
	for _, v := range all {
		if !strings.HasPrefix(v, "v") && !strings.HasPrefix(v, "d") {
			continue
		}
		sb.WriteString("try { $p(\"final\", \"" + v + "\", " + v + "); } catch (e) { $p(\"E\", \"final\"); }\n")
	}
	return sb.String()
}

// ExprProgram: a single expression statement of the given depth (for
// precedence/round-trip streams), wrapped in a probe.
func (g *JSGen) ExprProgram(depth int) string {
	return "try { $p(\"r\", " + g.Expr(depth, lvAssign) + "); } catch (e) { $p(\"E\", e && e.constructor && e.constructor.name); }\n"
}
