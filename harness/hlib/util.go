package hlib

import (
	"fmt"
	"strings"
)

// splitmix64: every random choice of a run derives from one seed.
type Rng struct{ s uint64 }

// The seed is first passed through the splitmix64 finaliser: without that, the
// streams of consecutive seeds would be shifted copies of one another.
func NewRng(seed uint64) *Rng {
	z := seed + 0x9E3779B97F4A7C15
	z = (z ^ (z >> 30)) * 0xBF58476D1CE4E5B9
	z = (z ^ (z >> 27)) * 0x94D049BB133111EB
	z ^= z >> 31
	return &Rng{z}
}
func (r *Rng) U64() uint64 {
	r.s += 0x9E3779B97F4A7C15
	z := r.s
	z = (z ^ (z >> 30)) * 0xBF58476D1CE4E5B9
	z = (z ^ (z >> 27)) * 0x94D049BB133111EB
	return z ^ (z >> 31)
}
func (r *Rng) Intn(n int) int {
	if n <= 0 {
		return 0
	}
	return int(r.U64() % uint64(n))
}
func (r *Rng) Bool() bool              { return r.U64()&1 == 1 }
func (r *Rng) Chance(p int) bool       { return r.Intn(100) < p }
func (r *Rng) Range(lo, hi int) int    { return lo + r.Intn(hi-lo+1) }
func (r *Rng) Pick(xs []string) string { return xs[r.Intn(len(xs))] }

// ---- Coq term printing ----

func CZ(v int64) string {
	if v < 0 {
		return fmt.Sprintf("(%d)", v)
	}
	return fmt.Sprintf("%d", v)
}
func CZi(v int) string { return CZ(int64(v)) }

func CBytes(b []byte) string {
	var sb strings.Builder
	sb.WriteByte('[')
	for i, c := range b {
		if i > 0 {
			sb.WriteByte(';')
		}
		fmt.Fprintf(&sb, "%d", c)
	}
	sb.WriteByte(']')
	return sb.String()
}

func CZList(xs []int64) string {
	var sb strings.Builder
	sb.WriteByte('[')
	for i, c := range xs {
		if i > 0 {
			sb.WriteByte(';')
		}
		sb.WriteString(CZ(c))
	}
	sb.WriteByte(']')
	return sb.String()
}

func CU16(xs []uint16) string {
	var sb strings.Builder
	sb.WriteByte('[')
	for i, c := range xs {
		if i > 0 {
			sb.WriteByte(';')
		}
		fmt.Fprintf(&sb, "%d", c)
	}
	sb.WriteByte(']')
	return sb.String()
}

func CBool(b bool) string {
	if b {
		return "true"
	}
	return "false"
}

func CList(items []string) string { return "[" + strings.Join(items, ";\n ") + "]" }

func COptZ(ok bool, v int64) string {
	if ok {
		return "(Some " + CZ(v) + ")"
	}
	return "None"
}

// A CoqFile accumulates definitions of case lists and the check commands.
type CoqFile struct {
	sb     strings.Builder
	checks []string
}

func NewCoqFile(imports string) *CoqFile {
	f := &CoqFile{}
	f.sb.WriteString(imports + "\n")
	return f
}

// AddCases defines `name : list T := items` and registers
// `checker name` (which must return the list of mismatching case indices).
func (f *CoqFile) AddCases(name, typ, checker string, items []string) {
	// chunk big lists so that no single term is huge
	const chunk = 400
	var parts []string
	for i := 0; i < len(items); i += chunk {
		j := i + chunk
		if j > len(items) {
			j = len(items)
		}
		pn := fmt.Sprintf("%s_%d", name, i/chunk)
		fmt.Fprintf(&f.sb, "Definition %s : list (%s) := %s.\n", pn, typ, CList(items[i:j]))
		parts = append(parts, pn)
	}
	if len(parts) == 0 {
		fmt.Fprintf(&f.sb, "Definition %s : list (%s) := [].\n", name, typ)
	} else {
		fmt.Fprintf(&f.sb, "Definition %s : list (%s) := %s.\n", name, typ, strings.Join(parts, " ++ "))
	}
	fmt.Fprintf(&f.sb, "Definition R_%s := Eval vm_compute in (%s %s).\n", name, checker, name)
	f.checks = append(f.checks, name)
}

func (f *CoqFile) String() string {
	var sb strings.Builder
	sb.WriteString(f.sb.String())
	for _, c := range f.checks {
		fmt.Fprintf(&sb, "Print R_%s.\n", c)
	}
	return sb.String()
}
