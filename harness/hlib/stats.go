// Package hlib: shared pieces of the verification harness (PRNG, Coq term
// printing, stats). Each family is its own binary under harness/cmd/<family>
// so that one family cannot break the build of another.
package hlib

import (
	"encoding/json"
	"flag"
	"os"
)

type Stats struct {
	Family      string                 `json:"family"`
	Seed        uint64                 `json:"seed"`
	Evaluations int                    `json:"evaluations"`
	Distinct    int                    `json:"distinct_nontrivial"`
	Rule        string                 `json:"rule"`
	Histogram   map[string]int         `json:"histogram"`
	Samples     []interface{}          `json:"samples"`
	Failures    []Failure              `json:"failures"`
	Extra       map[string]interface{} `json:"extra,omitempty"`
	distinct    map[string]bool
}

// A Failure is a concrete input on which the property's own predicate failed
// when evaluated on the implementation (glue stream / oracle).
type Failure struct {
	What   string      `json:"what"`
	Input  interface{} `json:"input"`
	Got    interface{} `json:"got"`
	Expect interface{} `json:"expect"`
}

func NewStats(family string, seed uint64) *Stats {
	return &Stats{Family: family, Seed: seed, Histogram: map[string]int{}, Samples: []interface{}{}, Failures: []Failure{}, Extra: map[string]interface{}{}, distinct: map[string]bool{}}
}

func (s *Stats) Sample(v interface{}) {
	if len(s.Samples) < 8 {
		s.Samples = append(s.Samples, v)
	}
}

// Note records one evaluated case of a kind; key identifies the input (for the
// distinct count); nontrivial says whether it exercises a non-identity path.
func (s *Stats) Note(kind, key string, nontrivial bool) {
	s.Evaluations++
	s.Histogram[kind]++
	if nontrivial {
		s.distinct[kind+":"+key] = true
	}
}

func (s *Stats) Fail(what string, input, got, expect interface{}) {
	if len(s.Failures) < 20 {
		s.Failures = append(s.Failures, Failure{what, input, got, expect})
	}
	s.Histogram["FAIL:"+what]++
}

func (s *Stats) Finish(rule string) {
	s.Distinct = len(s.distinct)
	s.Rule = rule
}

type Family func(seed uint64, n int, tier string, outDir string) []*Stats

// Main parses the common flags and runs the family; the driver reads
// <out>/<name>.stats.json and every <out>/*_cases.v
func Main(name string, f Family) {
	seed := flag.Uint64("seed", 1, "PRNG seed")
	n := flag.Int("n", 500, "case count scale")
	tier := flag.String("tier", "quick", "quick|thorough")
	out := flag.String("out", ".", "output directory")
	flag.Parse()
	if err := os.MkdirAll(*out, 0o755); err != nil {
		panic(err)
	}
	stats := f(*seed, *n, *tier, *out)
	data, _ := json.MarshalIndent(stats, "", " ")
	if err := os.WriteFile(*out+"/"+name+".stats.json", data, 0o644); err != nil {
		panic(err)
	}
}
